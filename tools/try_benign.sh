#!/bin/sh
# tools/try_benign.sh <id> <dir with patch.diff equiv.py notes.md> <checks...> : a behaviour-preserving change must NOT raise an alarm
set -u
ID=$1; SRC=$2; shift 2
OUT=/verif/seeded/$ID
WT=/var/tmp/verif_benign_$ID
mkdir -p "$OUT"
[ "$SRC" = "$OUT" ] || { cp "$SRC/patch.diff" "$OUT"/; cp "$SRC/equiv.py" "$OUT"/ 2>/dev/null; cp "$SRC/notes.md" "$OUT"/ 2>/dev/null; cp "$SRC"/golden*.pt "$SRC"/golden*.json "$SRC"/ref_trace.pt "$SRC"/ref_traj.pt "$SRC"/ref_digest*.json "$OUT"/ 2>/dev/null; }
git -C /repo worktree remove --force "$WT" 2>/dev/null; rm -rf "$WT"
git -C /repo worktree add -q --detach "$WT" HEAD || exit 2
cd "$WT" && git apply "$OUT/patch.diff" || { echo "patch does not apply"; exit 2; }
mkdir -p _seeded; cp "$OUT/equiv.py" _seeded/ 2>/dev/null; cp "$OUT"/golden*.pt "$OUT"/golden*.json "$OUT"/ref_trace.pt "$OUT"/ref_traj.pt "$OUT"/ref_digest*.json _seeded/ 2>/dev/null; sed -i "s#/tmp/w[0-9][0-9]*_C[0-9]*#$WT#g" _seeded/equiv.py 2>/dev/null
timeout 900 /venv/bin/python _seeded/equiv.py > /tmp/equiv_$ID.log 2>&1; RC_EQ=$?
TESTS=$(timeout 1800 /venv/bin/python -m pytest -q -p no:cacheprovider --timeout=900 --continue-on-collection-errors --ignore=_seeded 2>&1 | tail -1)
echo "equiv rc=$RC_EQ tests: $TESTS"
cd /verif
RESULTS=""
for P in "$@"; do
  VERIF_REPO=$WT timeout 1500 ./check $P --tier quick > /tmp/benign_${ID}_$P.log 2>&1; RC=$?
  TAGS=$(grep -o "tag=[a-z_:A-Z0-9]*" /tmp/benign_${ID}_$P.log | sort | uniq -c | tr '\n' ' ')
  echo "check $P rc=$RC $TAGS $(grep -c HARNESS-ERROR /tmp/benign_${ID}_$P.log) harness-errors"
  RESULTS="$RESULTS{\"check\":\"$P\",\"exit\":$RC,\"tags\":\"$TAGS\"},"
done
cat > "$OUT/meta.json" <<EOM
{"id": "$ID", "kind": "behaviour-preserving change (must not raise an alarm)", "equiv_exit_with_change": $RC_EQ, "tests_with_change": "$TESTS",
 "checks_run": [${RESULTS%,}], "how_run": "tools/try_benign.sh: fresh scratch worktree of /repo HEAD + patch, ./check <prop> --tier quick with VERIF_REPO=<scratch worktree>"}
EOM
git -C /repo worktree remove --force "$WT"; rm -rf "$WT"

#!/bin/sh
# tools/soak.sh <tier> <seed...> : every registered check on the unchanged tree for several VERIF_SEEDs; prints one line per run
TIER=$1; shift
for s in "$@"; do
  for p in $(python3 -c "import json;print(' '.join(json.load(open('tools/claimed.json'))))"); do
    ./check $p --tier $TIER --seed $s > /tmp/soak_$p_$s.log 2>&1; rc=$?
    echo "seed=$s $p rc=$rc $(tail -1 /tmp/soak_$p_$s.log | cut -c1-200)"
    if [ $rc -ne 0 ]; then grep -A1 "VIOLATION\|HARNESS" /tmp/soak_$p_$s.log | cut -c1-1500 | head -12; fi
  done
done

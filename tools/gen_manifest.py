#!/usr/bin/env python3
"""Regenerate /verif/MANIFEST.json from the property modules (run with /venv/bin/python -B tools/gen_manifest.py)."""
import importlib
import json
import os
import sys

VERIF = os.path.dirname(os.path.dirname(os.path.abspath(__file__)))
sys.path.insert(0, VERIF)

CLAIMED = [p for p in sys.argv[1:]] or json.load(open(os.path.join(VERIF, "tools", "claimed.json")))

NOT_APPLICABLE = {
    "C10": "matrix_inverse_root accuracy is a pure numerical function of (A, epsilon, root, config): no schedule, clock, fault, crash point or history for a simulator to own (DESIGN section 5)",
    "C11": "structural guarantees of the eigendecomposition-based root on degenerate inputs: pure function of the input (DESIGN section 5)",
    "C12": "matrix_eigenvectors orthonormality/ordering/fixed points: pure function of (A, estimate, config) (DESIGN section 5)",
    "C15": "_split_tensor_block_recovery is a pure function of (shape, start, end); the quantifier is over inputs only (DESIGN section 5)",
    "C16": "flatten/unflatten and OptimizerModule state round-trip over arbitrary nested structures: pure functions of the structure (DESIGN section 5)",
    "C17": "constructor domain: a pure predicate on the argument tuple; boundary enumeration, not simulation (DESIGN section 5)",
}
ALL = [f"C{i:02d}" for i in range(1, 19)]

checks = []
engines = {}
for pid in CLAIMED:
    m = importlib.import_module(f"simv.props.{pid.lower()}")
    checks.append(
        {
            "property_id": pid,
            "quick_cmd": f"./check {pid} --tier quick",
            "thorough_cmd": f"./check {pid} --tier thorough",
            "evidence_file": f"/verif/evidence/{pid}.json",
            "replay_cmd_template": "./check replay {path}",
            "engine": m.ENGINE,
            "level_claimed": {"category": m.LEVEL, "text": m.LEVEL_TEXT, "design_ref": m.DESIGN_REF},
            "level_note": m.LEVEL_NOTE,
            "technique": m.TECHNIQUE,
        }
    )
    engines.setdefault(m.ENGINE, []).append(pid)

ENGINE_INFO = {
    "single-node-history": (
        "simv/engine.py",
        "seeded operation-and-fault history driving the real optimizer on one rank; per-step refinement against a float64 reference model / lock-step twins; bitwise monitors",
    ),
    "multi-rank-world": (
        "simv/world.py",
        "N ranks of the real torch.distributed/DeviceMesh/DTensor + Shampoo code in one process: rank threads with baton passing, seeded scheduler, simulated collective backend, collective history, deadlock detector",
    ),
    "crash-restart": (
        "simv/props/c09.py",
        "crash/restart simulation over the checkpoint seam: every crash point of each sampled history, durable-state-only restart, storage faults on the saved dict",
    ),
}
pending = [p for p in ALL if p not in CLAIMED and p not in NOT_APPLICABLE]
manifest = {
    "version": 1,
    "setup_cmd": "/venv/bin/python -B -c \"import torch, distributed_shampoo; print('ok', torch.__version__)\"",
    "hooks": {
        "guard": "SHAMPOO_VERIF",
        "enable": "no hooks exist in /repo: every seam is harness-side (module attributes, c10d _world, custom backend); the guard name is reserved and unused",
        "baseline_off_cmd": "cd /repo && /venv/bin/python -m pytest -ra -q -p no:cacheprovider --timeout=900 --continue-on-collection-errors",
        "source_commits": [],
        "add_only": True,
    },
    "engines": [
        {"name": n, "path": ENGINE_INFO[n][0], "serves_properties": ps, "kind_free_text": ENGINE_INFO[n][1]}
        for n, ps in engines.items()
    ],
    "checks": checks,
    "not_applicable": [{"property_id": k, "reason": v} for k, v in NOT_APPLICABLE.items()]
    + [
        {"property_id": p, "reason": "claimed in DESIGN.md; its check is not registered yet (under construction, not a not-applicable verdict)"}
        for p in pending
    ],
    "notes": "Deterministic simulation with fault injection; see DESIGN.md. Exit codes: 0 held, 1 unlisted violation (VIOLATION line + replay file), 2 harness error. Known findings: known_findings.json.",
}
with open(os.path.join(VERIF, "MANIFEST.json"), "w") as f:
    json.dump(manifest, f, indent=1)
print("claimed", CLAIMED, "pending", pending)

#!/bin/sh
# tools/try_seeded.sh <seed-id> <property> <dir with patch.diff demo.py notes.md> [extra properties to run...]
# Confirms a seeded change independently in a FRESH scratch worktree of /repo (outside /repo and /verif), keeps it under
# /verif/seeded/<id>/, runs the property's quick check against the changed tree, removes the scratch worktree.
set -u
ID=$1; PROP=$2; SRC=$3; shift 3
OUT=/verif/seeded/$ID
WT=/var/tmp/verif_seed_$ID
mkdir -p "$OUT"
[ -f "$SRC/patch.diff" ] || { echo "no patch in $SRC"; exit 2; }
[ "$SRC" = "$OUT" ] || { cp "$SRC/patch.diff" "$SRC/demo.py" "$OUT"/; cp "$SRC/notes.md" "$OUT"/notes.md 2>/dev/null; }
git -C /repo worktree remove --force "$WT" 2>/dev/null; rm -rf "$WT"
git -C /repo worktree add -q --detach "$WT" HEAD || exit 2
mkdir -p "$WT/_seeded"; cp "$OUT/demo.py" "$WT/_seeded/"
cd "$WT" || exit 2
sed -i "s#/tmp/w[t0-9][0-9]*_C[0-9]*#$WT#g" _seeded/demo.py
timeout 900 /venv/bin/python _seeded/demo.py > /tmp/demo_clean_$ID.log 2>&1; RC_CLEAN=$?
git apply "$OUT/patch.diff" || { echo "patch does not apply"; cd /; git -C /repo worktree remove --force "$WT"; exit 2; }
timeout 900 /venv/bin/python _seeded/demo.py > /tmp/demo_changed_$ID.log 2>&1; RC_CHANGED=$?
# the pinned test command runs beside the checks (both only read the scratch worktree)
(timeout 1800 /venv/bin/python -m pytest -q -p no:cacheprovider --timeout=900 --continue-on-collection-errors --ignore=_seeded 2>&1 | tail -1 > /tmp/tests_$ID.txt) &
TESTPID=$!
echo "demo clean rc=$RC_CLEAN changed rc=$RC_CHANGED"
cd /verif
RESULTS=""
for P in $PROP "$@"; do
  VERIF_REPO=$WT timeout 1500 ./check $P --tier quick > /tmp/seeded_${ID}_$P.log 2>&1; RC=$?
  TAGS=$(grep -o "tag=[a-z_:A-Z0-9]*" /tmp/seeded_${ID}_$P.log | sort | uniq -c | tr '\n' ' ')
  echo "check $P rc=$RC $TAGS"
  RESULTS="$RESULTS{\"check\":\"$P\",\"exit\":$RC,\"tags\":\"$TAGS\"},"
done
wait $TESTPID; TESTS=$(cat /tmp/tests_$ID.txt); echo "tests: $TESTS"
cat > "$OUT/meta.json" <<EOM
{"id": "$ID", "property": "$PROP", "demo_exit_unchanged": $RC_CLEAN, "demo_exit_changed": $RC_CHANGED, "tests_with_change": "$TESTS",
 "checks_run": [${RESULTS%,}],
 "how_run": "tools/try_seeded.sh: fresh scratch worktree of /repo HEAD under /var/tmp, demo without/with patch.diff, pinned pytest command with the patch, then ./check <prop> --tier quick with VERIF_REPO=<scratch worktree>; worktree removed afterwards"}
EOM
git -C /repo worktree remove --force "$WT"; rm -rf "$WT"

"""Deterministic multi-rank world: N ranks of real torch.distributed / DeviceMesh / DTensor code in one process.

Only the bottom layer is simulated (see DESIGN 2.1):
  * c10d world registry     -> per-rank-thread world installed at distributed_c10d._world
  * process-group backend   -> SimProcessGroup ("threaded"), every collective is a scheduler yield point + history event
  * ranks                   -> parked OS threads, exactly one runnable at a time (baton passing), seeded scheduler
  * get_device_mesh cache   -> per rank instead of per process

Nothing here draws from a PRNG except the scheduler's own stream and nothing reads a clock.
"""

from __future__ import annotations

import random
import sys
import threading
import traceback
from typing import Any, Callable

import torch
import torch.distributed as dist
import torch.distributed.distributed_c10d as c10d
from torch._C._distributed_c10d import _create_work_from_future
from torch.futures import Future

REPO_MARKERS = ("/distributed_shampoo/", "/matrix_functions", "/optimizer_modules")


class CollectiveMismatch(RuntimeError):
    pass


class SimAbort(BaseException):
    """Raised inside a parked rank thread when the world is being torn down."""


class _RankWorldData:
    def __init__(self) -> None:
        self.default_pg = None
        self.pg_map: dict = {}
        self.pg_names: dict = {}
        self.pg_group_ranks: dict = {}
        self.pg_backend_config: dict = {}
        self.group_count = 0
        self.tags_to_pg: dict = {}
        self.pg_to_tag: dict = {}
        self.pg_coalesce_state: dict = {}
        self.pg_default_device: dict = {}


class RankLocalWorld:
    """Same attribute surface as c10d._World; data kept per rank thread."""

    _tls = threading.local()

    def _w(self) -> _RankWorldData:
        w = getattr(RankLocalWorld._tls, "w", None)
        if w is None:
            w = RankLocalWorld._tls.w = _RankWorldData()
        return w

    @classmethod
    def reset_current_thread(cls) -> None:
        cls._tls.w = _RankWorldData()

    default_pg = property(lambda s: s._w().default_pg, lambda s, v: setattr(s._w(), "default_pg", v))
    pg_map = property(lambda s: s._w().pg_map)
    pg_names = property(lambda s: s._w().pg_names)
    pg_group_ranks = property(lambda s: s._w().pg_group_ranks)
    pg_backend_config = property(lambda s: s._w().pg_backend_config)
    group_count = property(lambda s: s._w().group_count, lambda s, v: setattr(s._w(), "group_count", v))
    tags_to_pg = property(lambda s: s._w().tags_to_pg)
    pg_to_tag = property(lambda s: s._w().pg_to_tag)
    pg_coalesce_state = property(lambda s: s._w().pg_coalesce_state)
    pg_default_device = property(lambda s: s._w().pg_default_device)

    @property
    def pg_config_info(self) -> list:
        return []


def _done_work(result: Any):
    fut: Future = Future()
    fut.set_result(result)
    return _create_work_from_future(fut)


def _repo_call_site() -> str:
    """Innermost frame that lies in the repository under test (for diagnosis of group creations)."""
    f = sys._getframe(1)
    while f is not None:
        fn = f.f_code.co_filename
        if any(m in fn for m in REPO_MARKERS) and "/simv/" not in fn:
            return f"{fn.rsplit('/', 1)[-1]}:{f.f_code.co_name}"
        f = f.f_back
    return "harness"


class RankCtx:
    def __init__(self, idx: int) -> None:
        self.idx = idx
        self.resume = threading.Event()
        self.status = "runnable"  # runnable | blocked | done | failed
        self.blocked_on: Any = None
        self.exc: BaseException | None = None
        self.exc_tb: str = ""
        self.thread: threading.Thread | None = None
        self.mesh_cache: dict = {}
        self.group_creation_counts: dict[tuple[int, ...], int] = {}
        self.pending_ranks: tuple[int, ...] | None = None
        self.out: dict[str, Any] = {}
        self.progress = 0  # harness-defined progress marker (e.g. completed events)


class SimProcessGroup(dist.ProcessGroup):
    """The only stubbed layer: a reliable collective transport with scheduler yield points."""

    def __init__(self, rank: int, size: int) -> None:
        super().__init__(rank, size)
        self._rank = rank
        self._size = size
        sim = SIM.current
        ctx = sim.me()
        ranks = ctx.pending_ranks
        if ranks is None:
            ranks = tuple(range(sim.n))
        assert len(ranks) == size and ranks[rank] == ctx.idx, (ranks, rank, size, ctx.idx)
        k = ctx.group_creation_counts.get(ranks, 0)
        ctx.group_creation_counts[ranks] = k + 1
        self._key = (ranks, k)
        self._seq = 0
        self._ranks = ranks

    # -- identification ------------------------------------------------------------------------------------------
    def size(self) -> int:
        return self._size

    def rank(self) -> int:
        return self._rank

    def getBackendName(self) -> str:
        return "threaded"

    @property
    def pg_name(self) -> str:
        return c10d._world.pg_names[self]

    @property
    def group_name(self) -> str:
        return self.pg_name

    def __repr__(self) -> str:
        return f"SimPG(ranks={self._ranks}, k={self._key[1]}, rank={self._rank})"

    # -- collectives ---------------------------------------------------------------------------------------------
    def _coll(self, op: str, payload: Any, sizes: tuple[int, ...]):
        seq = self._seq
        self._seq += 1
        return SIM.current.collective(self, op, seq, payload, sizes)

    def _allgather_base(self, output_tensor, input_tensor, opts=None):
        self._coll(
            "allgather_base",
            (output_tensor, input_tensor),
            (input_tensor.numel() * input_tensor.element_size(), output_tensor.numel() * output_tensor.element_size()),
        )
        return _done_work(output_tensor)

    def allgather(self, output_tensors, input_tensor, opts=None):
        self._coll(
            "allgather",
            (output_tensors[0], input_tensor[0]),
            (input_tensor[0].numel() * input_tensor[0].element_size(),),
        )
        return _done_work(output_tensors)

    def allgather_into_tensor_coalesced(self, output_tensor_list, input_tensor_list, opts=None):
        res = None
        for o, i in zip(output_tensor_list, input_tensor_list):
            res = self._allgather_base(o, i)
        return res

    def broadcast(self, tensor_list, opts=None):
        root = opts.rootRank if opts is not None else 0
        self._coll("broadcast", (tensor_list[0], root), (tensor_list[0].numel() * tensor_list[0].element_size(),))
        return _done_work(tensor_list)

    def allreduce(self, tensor_list, opts=None):
        self._coll("allreduce", (tensor_list[0],), (tensor_list[0].numel() * tensor_list[0].element_size(),))
        return _done_work(tensor_list)

    def barrier(self, opts=None):
        self._coll("barrier", (), ())
        return _done_work(None)


def _apply_collective(op: str, payloads: dict[int, Any], size: int) -> None:
    """Data movement, executed once by the last arriving member while every other member is parked."""
    with torch.no_grad():
        if op == "allgather_base":
            for m in range(size):
                out = payloads[m][0]
                chunks = torch.chunk(out, size)
                for j in range(size):
                    chunks[j].copy_(payloads[j][1])
        elif op == "allgather":
            for m in range(size):
                outs = payloads[m][0]
                for j in range(size):
                    outs[j].copy_(payloads[j][1])
        elif op == "broadcast":
            root = payloads[0][1]
            src = payloads[root][0]
            for m in range(size):
                if m != root:
                    payloads[m][0].copy_(src)
        elif op == "allreduce":
            total = torch.stack([payloads[m][0] for m in range(size)]).sum(dim=0)
            for m in range(size):
                payloads[m][0].copy_(total)
        elif op == "barrier":
            pass
        else:  # pragma: no cover
            raise NotImplementedError(op)


class Sim:
    """One simulated world run."""

    def __init__(
        self,
        n: int,
        schedule_seed: int,
        schedule: list[int] | None = None,
        stickiness: float = 0.0,
        weights: list[float] | None = None,
        step_cap: int = 200_000,
    ) -> None:
        self.n = n
        from . import depmon

        depmon.install()
        self.dep_before = depmon.count()  # (non-finite returns of torch.linalg.eigh seen before this world started)
        self.rng = random.Random(schedule_seed)
        self.replay_schedule = list(schedule) if schedule is not None else None
        self.replay_pos = 0
        self.stickiness = stickiness
        self.weights = weights or [1.0] * n
        self.step_cap = step_cap
        self.ranks = [RankCtx(i) for i in range(n)]
        self.by_thread: dict[int, RankCtx] = {}
        self.back = threading.Event()
        self.aborting = False
        self.log: list[tuple] = []
        self.choices: list[int] = []
        self.slots: dict[tuple, dict] = {}
        self.outcome = "ok"  # ok | deadlock | rank_failed | step_cap
        self.mismatch: dict | None = None
        self.deadlock_info: list[dict] = []
        self.last = -1
        self.store = dist.HashStore()

    # -- called from rank threads ----------------------------------------------------------------------------------
    def me(self) -> RankCtx:
        return self.by_thread[threading.get_ident()]

    def yield_(self, status: str = "runnable", blocked_on: Any = None) -> None:
        me = self.me()
        me.status = status
        me.blocked_on = blocked_on
        self.back.set()
        me.resume.wait()
        me.resume.clear()
        if self.aborting:
            raise SimAbort()

    def record(self, kind: str, *detail: Any) -> None:
        me = self.me()
        self.log.append((len(self.log), me.idx, kind) + detail)

    def collective(self, pg: SimProcessGroup, op: str, seq: int, payload: Any, sizes: tuple[int, ...]) -> None:
        me = self.me()
        key = (pg._key, seq)
        slot = self.slots.setdefault(key, {"op": {}, "payload": {}, "members": pg._ranks, "done": False})
        slot["op"][pg._rank] = op
        slot["payload"][pg._rank] = payload
        self.log.append((len(self.log), me.idx, "coll", pg._ranks, pg._key[1], seq, op, sizes, _repo_call_site()))
        slot.setdefault("sizes", {})[pg._rank] = sizes
        if len(slot["payload"]) == pg._size:
            ops = set(slot["op"].values())
            if len(ops) != 1 or len(set(slot["sizes"].values())) != 1:
                # members of one group disagree on the collective they are in: with a real transport this is
                # undefined behaviour (hang or garbage); the world stops here and the history checker reports it
                self.mismatch = {"group": list(pg._ranks), "seq": seq, "ops": dict(slot["op"]), "sizes": {k: list(v) for k, v in slot["sizes"].items()}}
                raise CollectiveMismatch(str(self.mismatch))
            _apply_collective(op, slot["payload"], pg._size)
            slot["done"] = True
            slot["payload"] = {}
            for g in pg._ranks:
                r = self.ranks[g]
                if r.status == "blocked" and r.blocked_on == key:
                    r.status = "runnable"
                    r.blocked_on = None
            self.yield_("runnable")
        else:
            self.yield_("blocked", key)
            assert slot["done"], "resumed before the collective completed"

    # -- scheduler ------------------------------------------------------------------------------------------------
    def _choose(self, runnable: list[RankCtx]) -> RankCtx:
        if self.replay_schedule is not None and self.replay_pos < len(self.replay_schedule):
            want = self.replay_schedule[self.replay_pos]
            self.replay_pos += 1
            for r in runnable:
                if r.idx == want:
                    return r
            return runnable[0]
        if self.replay_schedule is not None:
            return runnable[0]
        if self.last >= 0 and self.stickiness > 0.0:
            for r in runnable:
                if r.idx == self.last and self.rng.random() < self.stickiness:
                    return r
        ws = [self.weights[r.idx] for r in runnable]
        x = self.rng.random() * sum(ws)
        acc = 0.0
        for r, w in zip(runnable, ws):
            acc += w
            if x < acc:
                return r
        return runnable[-1]

    def run(self, rank_main: Callable[[int, "Sim"], None]) -> None:
        global SIM
        SIM.current = self
        for r in self.ranks:
            t = threading.Thread(target=self._thread_main, args=(r, rank_main), name=f"simrank-{r.idx}", daemon=True)
            r.thread = t
            t.start()
        steps = 0
        while True:
            if any(r.status == "failed" for r in self.ranks):
                self.outcome = "rank_failed"
                self._abort()
                break
            runnable = [r for r in self.ranks if r.status == "runnable"]
            if not runnable:
                blocked = [r for r in self.ranks if r.status == "blocked"]
                if blocked:
                    self.outcome = "deadlock"
                    self.deadlock_info = [self._describe_block(r) for r in blocked]
                    self._abort()
                break
            steps += 1
            if steps > self.step_cap:
                self.outcome = "step_cap"
                self._abort()
                break
            r = self._choose(runnable)
            self.choices.append(r.idx)
            self.last = r.idx
            self.back.clear()
            r.resume.set()
            self.back.wait()
        if any(r.status == "failed" for r in self.ranks) and self.outcome == "ok":
            self.outcome = "rank_failed"
        for r in self.ranks:
            r.thread.join(timeout=30)
        SIM.current = None

    def _describe_block(self, r: RankCtx) -> dict:
        (ranks, k), seq = r.blocked_on
        slot = self.slots[r.blocked_on]
        return {
            "rank": r.idx,
            "group": list(ranks),
            "group_creation": k,
            "seq": seq,
            "op": slot["op"].get(ranks.index(r.idx)),
            "arrived": sorted(ranks[m] for m in slot["op"]),
            "progress": r.progress,
        }

    def _abort(self) -> None:
        self.aborting = True
        for r in self.ranks:
            if r.status in ("runnable", "blocked"):
                self.back.clear()
                r.resume.set()
                self.back.wait()

    def _thread_main(self, r: RankCtx, rank_main: Callable[[int, "Sim"], None]) -> None:
        self.by_thread[threading.get_ident()] = r
        try:
            # park until scheduled for the first time
            r.resume.wait()
            r.resume.clear()
            if self.aborting:
                raise SimAbort()
            RankLocalWorld.reset_current_thread()
            dist.init_process_group(backend="threaded", rank=r.idx, world_size=self.n, store=self.store)
            try:
                rank_main(r.idx, self)
            finally:
                try:
                    dist.destroy_process_group()
                except BaseException:
                    pass
            r.status = "done"
        except SimAbort:
            if r.status != "failed":
                r.status = "done"
        except BaseException as e:  # noqa: BLE001
            r.exc = e
            r.exc_tb = traceback.format_exc()
            r.status = "failed"
        finally:
            self.by_thread.pop(threading.get_ident(), None)
            self.back.set()


class _SimHolder:
    current: Sim | None = None


SIM = _SimHolder()

_installed = False
_orig_new_group_with_tag = None


def _per_rank_get_device_mesh(device_type: str, mesh, mesh_dim_names=None):
    from torch.distributed.device_mesh import DeviceMesh

    sim = SIM.current
    if sim is None:
        return DeviceMesh(device_type=device_type, mesh=mesh, mesh_dim_names=mesh_dim_names)
    ctx = sim.me()
    key = (device_type, mesh, mesh_dim_names)
    dm = ctx.mesh_cache.get(key)
    if dm is None:
        dm = ctx.mesh_cache[key] = DeviceMesh(device_type=device_type, mesh=mesh, mesh_dim_names=mesh_dim_names)
    return dm


def install() -> None:
    """Install the seams once per process (idempotent)."""
    global _installed, _orig_new_group_with_tag
    if _installed:
        return
    _installed = True
    torch.set_num_threads(1)
    torch.autograd.set_multithreading_enabled(False)
    c10d._world = RankLocalWorld()
    torch._C._distributed_c10d._set_thread_isolation_mode(True)
    dist.Backend.register_backend(
        "threaded", lambda store, rank, size, timeout: SimProcessGroup(rank, size), devices=["cpu"]
    )

    _orig_new_group_with_tag = c10d._new_group_with_tag

    def _logged_new_group_with_tag(ranks=None, *args, **kwargs):
        sim = SIM.current
        if sim is None:
            return _orig_new_group_with_tag(ranks, *args, **kwargs)
        ctx = sim.me()
        rk = tuple(sorted(ranks)) if ranks is not None else tuple(range(sim.n))
        sim.log.append((len(sim.log), ctx.idx, "new_group", rk, _repo_call_site(), c10d._world.group_count))
        ctx.pending_ranks = rk
        try:
            return _orig_new_group_with_tag(ranks, *args, **kwargs)
        finally:
            ctx.pending_ranks = None

    c10d._new_group_with_tag = _logged_new_group_with_tag

    # per-rank replacement of the process-global functools.cache on get_device_mesh
    import distributed_shampoo.utils.shampoo_ddp_distributor as m_ddp
    import distributed_shampoo.utils.shampoo_dist_utils as m_du
    import distributed_shampoo.utils.shampoo_hsdp_distributor as m_hsdp
    import distributed_shampoo.utils.shampoo_hybrid_shard_distributor as m_hy

    for m in (m_du, m_ddp, m_hsdp, m_hy):
        if not hasattr(m, "get_device_mesh"):
            raise RuntimeError(f"seam missing: {m.__name__}.get_device_mesh")
        m.get_device_mesh = _per_rank_get_device_mesh


def run_world(
    n: int,
    rank_main: Callable[[int, Sim], None],
    schedule_seed: int = 0,
    schedule: list[int] | None = None,
    stickiness: float = 0.0,
    weights: list[float] | None = None,
    step_cap: int = 200_000,
) -> Sim:
    install()
    sim = Sim(n, schedule_seed, schedule, stickiness, weights, step_cap)
    sim.run(rank_main)
    return sim

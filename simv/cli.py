"""Entry point: python -m simv.cli <Cxx|replay|selftest|_worker> ..."""

from __future__ import annotations

import argparse
import os
import sys
import warnings

warnings.filterwarnings("ignore")


def main(argv: list[str]) -> int:
    if argv and argv[0] == "_worker":
        from . import runner

        return runner.worker_main(argv[1:])
    if argv and argv[0] == "_digests":
        from . import runner

        return runner.digests_main(argv[1:])
    if argv and argv[0] == "replay":
        ap = argparse.ArgumentParser()
        ap.add_argument("path")
        ap.add_argument("--quiet", action="store_true")
        a = ap.parse_args(argv[1:])
        from . import runner

        return runner.replay(a.path, a.quiet)
    if argv and argv[0] == "selftest":
        from . import selftest

        return selftest.main(argv[1:])
    ap = argparse.ArgumentParser()
    ap.add_argument("prop")
    ap.add_argument("--tier", default=os.environ.get("VERIF_TIER", "quick"), choices=["quick", "thorough"])
    ap.add_argument("--seed", type=int, default=int(os.environ.get("VERIF_SEED", "0") or 0))
    ap.add_argument("--budget", type=float, default=None)
    ap.add_argument("--workers", type=int, default=None)
    a = ap.parse_args(argv)
    from . import runner

    return runner.run_check(a.prop.upper(), a.tier, a.seed, a.budget, a.workers)


if __name__ == "__main__":
    sys.exit(main(sys.argv[1:]))

"""./check selftest [determinism|sensitivity|all] - development tooling and regression guard for the checks themselves
(DESIGN 2.6). Not one of the registered property commands."""

from __future__ import annotations

import json
import os
import shutil
import subprocess
import sys
import time
from concurrent.futures import ThreadPoolExecutor

VERIF = os.path.dirname(os.path.dirname(os.path.abspath(__file__)))
PY = sys.executable


def _env(hashseed: str, repo: str | None = None) -> dict:
    env = dict(os.environ)
    env["PYTHONHASHSEED"] = hashseed
    env["PYTHONPATH"] = (repo + os.pathsep if repo else "") + VERIF
    env["OMP_NUM_THREADS"] = env["MKL_NUM_THREADS"] = "1"
    env["PYTHONWARNINGS"] = "ignore"
    if repo:
        env["VERIF_REPO"] = repo
    return env


def _digests(prop: str, start: int, count: int, hashseed: str) -> dict[int, str]:
    r = subprocess.run(
        [PY, "-B", "-m", "simv.cli", "_digests", prop, "quick", "0", str(start), str(count)],
        cwd=VERIF, env=_env(hashseed), capture_output=True, text=True, timeout=1800,
    )
    out = {}
    for line in r.stdout.splitlines():
        if line.startswith("DIGEST "):
            _, i, t, d = line.split()
            out[int(i)] = t + ":" + d
    if r.returncode != 0:
        out[-1] = "EXIT %d %s" % (r.returncode, r.stderr[-300:])
    return out


def determinism(props: list[str], n: int) -> int:
    """Every run index executed twice: alone under PYTHONHASHSEED=0 and inside 16 concurrent processes under
    PYTHONHASHSEED=12345; digests of (trace, parameters, state, event log, scheduler choices, probes) must agree."""
    bad = 0
    for prop in props:
        count = max(4, n // 8) if prop == "C18" else n
        t0 = time.time()
        per = max(1, count // 16)
        slices = [(s, min(per, count - s)) for s in range(0, count, per)]
        with ThreadPoolExecutor(max_workers=16) as ex:
            b_parts = list(ex.map(lambda sc: _digests(prop, sc[0], sc[1], "12345"), slices))
        with ThreadPoolExecutor(max_workers=4) as ex:
            quarter = max(1, count // 4)
            a_parts = list(ex.map(lambda s: _digests(prop, s, min(quarter, count - s), "0"), range(0, count, quarter)))
        a = {k: v for p in a_parts for k, v in p.items()}
        b = {k: v for p in b_parts for k, v in p.items()}
        diff = [i for i in range(count) if a.get(i) != b.get(i)]
        status = "OK" if not diff and -1 not in a and -1 not in b else "MISMATCH"
        if status != "OK":
            bad += 1
        print(f"determinism {prop}: {count} runs x 2 (hash seeds 0/12345, 4 vs 16 concurrent processes) {status} {diff[:5]} {a.get(-1, '')} {b.get(-1, '')} [{time.time() - t0:.0f}s]", flush=True)
    return bad


def apply_mutant(m: dict, dst: str) -> None:
    path = os.path.join(dst, m["file"])
    s = open(path).read()
    if s.count(m["old"]) != 1:
        raise RuntimeError(f"mutant {m['id']}: pattern found {s.count(m['old'])} times in {m['file']}")
    open(path, "w").write(s.replace(m["old"], m["new"]))


def run_mutant(m: dict, budget: float) -> tuple[str, str]:
    dst = f"/var/tmp/verif_mut_{m['id']}_{os.getpid()}"
    shutil.rmtree(dst, ignore_errors=True)
    os.makedirs(dst)
    try:
        ar = subprocess.run("git -C /repo archive HEAD | tar -x -C " + dst, shell=True, capture_output=True, text=True)
        if ar.returncode != 0:
            return "ERROR", ar.stderr[-200:]
        apply_mutant(m, dst)
        r = subprocess.run(
            [PY, "-B", "-m", "simv.cli", m["property"], "--tier", "quick", "--budget", str(budget), "--workers", "4"],
            cwd=VERIF, env=_env("0", dst), capture_output=True, text=True, timeout=1200,
        )
        tags = sorted({l.split("tag=")[1].split()[0] for l in r.stdout.splitlines() if "tag=" in l})
        return {0: "MISSED", 1: "CAUGHT", 2: "HARNESS-ERROR"}.get(r.returncode, f"EXIT{r.returncode}"), ",".join(tags) or r.stdout[-200:].replace("\n", " ")
    except Exception as e:  # noqa: BLE001
        return "ERROR", repr(e)[:200]
    finally:
        shutil.rmtree(dst, ignore_errors=True)


def sensitivity(only: list[str] | None, budget: float) -> int:
    muts = json.load(open(os.path.join(VERIF, "mutants", "mutants.json")))
    if only:
        muts = [m for m in muts if m["id"] in only or m["property"] in only]
    missed = 0
    with ThreadPoolExecutor(max_workers=4) as ex:
        results = list(ex.map(lambda m: run_mutant(m, budget), muts))
    for m, (status, detail) in zip(muts, results):
        print(f"mutant {m['id']} [{m['property']}] {status} {detail}", flush=True)
        if status != "CAUGHT":
            missed += 1
    print(f"sensitivity: {len(muts) - missed}/{len(muts)} mutants caught")
    return missed


def main(argv: list[str]) -> int:
    what = argv[0] if argv else "all"
    claimed = json.load(open(os.path.join(VERIF, "tools", "claimed.json")))
    rc = 0
    if what in ("determinism", "all"):
        props = [a for a in argv[1:] if a.startswith("C")] or claimed
        n = int(os.environ.get("VERIF_SELFTEST_RUNS", "64"))
        rc |= 1 if determinism(props, n) else 0
    if what in ("sensitivity", "all"):
        only = [a for a in argv[1:] if not a.startswith("--")] or None
        rc |= 2 if sensitivity(only, float(os.environ.get("VERIF_MUTANT_BUDGET", "25"))) else 0
    return rc

"""./check selftest [determinism|sensitivity|all] - development tooling and regression guard for the checks themselves
(DESIGN 2.6). Not one of the registered property commands."""

from __future__ import annotations

import json
import os
import shutil
import subprocess
import sys
import time
from concurrent.futures import ThreadPoolExecutor

VERIF = os.path.dirname(os.path.dirname(os.path.abspath(__file__)))
PY = sys.executable


def _env(hashseed: str, repo: str | None = None) -> dict:
    env = dict(os.environ)
    env["PYTHONHASHSEED"] = hashseed
    env["PYTHONPATH"] = (repo + os.pathsep if repo else "") + VERIF
    env["OMP_NUM_THREADS"] = env["MKL_NUM_THREADS"] = "1"
    env["PYTHONWARNINGS"] = "ignore"
    if repo:
        env["VERIF_REPO"] = repo
    return env


def _digests(prop: str, start: int, count: int, hashseed: str) -> dict[int, str]:
    r = subprocess.run(
        [PY, "-B", "-m", "simv.cli", "_digests", prop, "quick", "0", str(start), str(count)],
        cwd=VERIF, env=_env(hashseed), capture_output=True, text=True, timeout=1800,
    )
    out = {}
    for line in r.stdout.splitlines():
        if line.startswith("DIGEST "):
            _, i, t, d = line.split()
            out[int(i)] = t + ":" + d
    if r.returncode != 0:
        out[-1] = "EXIT %d %s" % (r.returncode, r.stderr[-300:])
    return out


def determinism(props: list[str], n: int) -> int:
    """Every run index executed twice: alone under PYTHONHASHSEED=0 and inside 16 concurrent processes under
    PYTHONHASHSEED=12345; digests of (trace, parameters, state, event log, scheduler choices, probes) must agree."""
    bad = 0
    for prop in props:
        count = max(4, n // 8) if prop == "C18" else n
        t0 = time.time()
        per = max(1, count // 16)
        slices = [(s, min(per, count - s)) for s in range(0, count, per)]
        with ThreadPoolExecutor(max_workers=16) as ex:
            b_parts = list(ex.map(lambda sc: _digests(prop, sc[0], sc[1], "12345"), slices))
        with ThreadPoolExecutor(max_workers=4) as ex:
            quarter = max(1, count // 4)
            a_parts = list(ex.map(lambda s: _digests(prop, s, min(quarter, count - s), "0"), range(0, count, quarter)))
        a = {k: v for p in a_parts for k, v in p.items()}
        b = {k: v for p in b_parts for k, v in p.items()}
        diff = [i for i in range(count) if a.get(i) != b.get(i)]
        status = "OK" if not diff and -1 not in a and -1 not in b else "MISMATCH"
        if status != "OK":
            bad += 1
        print(f"determinism {prop}: {count} runs x 2 (hash seeds 0/12345, 4 vs 16 concurrent processes) {status} {diff[:5]} {a.get(-1, '')} {b.get(-1, '')} [{time.time() - t0:.0f}s]", flush=True)
    return bad


def apply_mutant(m: dict, dst: str) -> None:
    path = os.path.join(dst, m["file"])
    s = open(path).read()
    if s.count(m["old"]) != 1:
        raise RuntimeError(f"mutant {m['id']}: pattern found {s.count(m['old'])} times in {m['file']}")
    open(path, "w").write(s.replace(m["old"], m["new"]))


def run_mutant(m: dict, budget: float) -> tuple[str, str]:
    dst = f"/var/tmp/verif_mut_{m['id']}_{os.getpid()}"
    shutil.rmtree(dst, ignore_errors=True)
    os.makedirs(dst)
    try:
        ar = subprocess.run("git -C /repo archive HEAD | tar -x -C " + dst, shell=True, capture_output=True, text=True)
        if ar.returncode != 0:
            return "ERROR", ar.stderr[-200:]
        apply_mutant(m, dst)
        r = subprocess.run(
            [PY, "-B", "-m", "simv.cli", m["property"], "--tier", "quick", "--budget", str(budget), "--workers", "4"],
            cwd=VERIF, env=_env("0", dst), capture_output=True, text=True, timeout=1200,
        )
        tags = sorted({l.split("tag=")[1].split()[0] for l in r.stdout.splitlines() if "tag=" in l})
        return {0: "MISSED", 1: "CAUGHT", 2: "HARNESS-ERROR"}.get(r.returncode, f"EXIT{r.returncode}"), ",".join(tags) or r.stdout[-200:].replace("\n", " ")
    except Exception as e:  # noqa: BLE001
        return "ERROR", repr(e)[:200]
    finally:
        shutil.rmtree(dst, ignore_errors=True)


def sensitivity(only: list[str] | None, budget: float) -> int:
    muts = json.load(open(os.path.join(VERIF, "mutants", "mutants.json")))
    if only:
        muts = [m for m in muts if m["id"] in only or m["property"] in only]
    missed = 0
    with ThreadPoolExecutor(max_workers=4) as ex:
        results = list(ex.map(lambda m: run_mutant(m, budget), muts))
    for m, (status, detail) in zip(muts, results):
        print(f"mutant {m['id']} [{m['property']}] {status} {detail}", flush=True)
        if status != "CAUGHT":
            missed += 1
    print(f"sensitivity: {len(muts) - missed}/{len(muts)} mutants caught")
    return missed


def run_seeded(sdir: str, checks: list[str], budget: float, workers: int) -> list[tuple[str, int, str]]:
    """Apply seeded/<id>/patch.diff to a scratch copy of /repo HEAD and run the given quick checks against it."""
    sid = os.path.basename(sdir)
    dst = f"/var/tmp/verif_seedreg_{sid}_{os.getpid()}"
    shutil.rmtree(dst, ignore_errors=True)
    os.makedirs(dst)
    out = []
    try:
        ar = subprocess.run("git -C /repo archive HEAD | tar -x -C " + dst, shell=True, capture_output=True, text=True)
        pa = subprocess.run(["patch", "-p1", "-s", "-d", dst, "-i", os.path.join(sdir, "patch.diff")], capture_output=True, text=True)
        if ar.returncode != 0 or pa.returncode != 0:
            return [("-", -1, "patch does not apply: " + (ar.stderr + pa.stdout + pa.stderr)[-200:])]
        for c in checks:
            r = subprocess.run(
                [PY, "-B", "-m", "simv.cli", c, "--tier", "quick", "--budget", str(budget), "--workers", str(workers)],
                cwd=VERIF, env=_env("0", dst), capture_output=True, text=True, timeout=3000,
            )
            tags = sorted({l.split("tag=")[1].split()[0] for l in r.stdout.splitlines() if "tag=" in l and "KNOWN-FINDING" not in l})
            out.append((c, r.returncode, ",".join(tags)))
    except Exception as e:  # noqa: BLE001
        out.append(("-", -1, repr(e)[:200]))
    finally:
        shutil.rmtree(dst, ignore_errors=True)
    return out


def seeded_regression(only: list[str] | None, budget: float) -> int:
    """Every change under seeded/: S* (breaking) must be reported by the property's own quick check, B* (behaviour-
    preserving) must pass every check recorded in its meta.json. The whole-machinery regression after any change to /verif."""
    root = os.path.join(VERIF, "seeded")
    dirs = sorted(d for d in os.listdir(root) if os.path.isfile(os.path.join(root, d, "patch.diff")))
    if only:
        dirs = [d for d in dirs if any(d.startswith(o) or o in d for o in only)]
    bad = 0

    def one(d: str):
        meta = json.load(open(os.path.join(root, d, "meta.json")))
        if d.startswith("B"):
            checks = [c["check"] for c in meta.get("checks_run", [])]
        else:
            checks = [meta["property"]]
        return d, run_seeded(os.path.join(root, d), checks, budget, 8)

    with ThreadPoolExecutor(max_workers=2) as ex:
        for d, res in ex.map(one, dirs):
            if d.startswith("B"):
                ok = all(rc == 0 for _, rc, _ in res)
                status = "QUIET" if ok else "ALARM"
            else:
                ok = any(rc == 1 for _, rc, _ in res) and all(rc in (0, 1) for _, rc, _ in res)
                status = "CAUGHT" if ok else "MISSED"
            bad += 0 if ok else 1
            print(f"seeded {d} {status} " + "; ".join(f"{c}: exit {rc} {t}" for c, rc, t in res), flush=True)
    print(f"seeded regression: {len(dirs) - bad}/{len(dirs)} as expected")
    return bad


def main(argv: list[str]) -> int:
    what = argv[0] if argv else "all"
    if what == "seeded":
        only = [a for a in argv[1:] if not a.startswith("--")] or None
        return 4 if seeded_regression(only, float(os.environ.get("VERIF_SEEDED_BUDGET", "40"))) else 0
    claimed = json.load(open(os.path.join(VERIF, "tools", "claimed.json")))
    rc = 0
    if what in ("determinism", "all"):
        props = [a for a in argv[1:] if a.startswith("C")] or claimed
        n = int(os.environ.get("VERIF_SELFTEST_RUNS", "64"))
        rc |= 1 if determinism(props, n) else 0
    if what in ("sensitivity", "all"):
        only = [a for a in argv[1:] if not a.startswith("--")] or None
        rc |= 2 if sensitivity(only, float(os.environ.get("VERIF_MUTANT_BUDGET", "25"))) else 0
    return rc

"""C14 - block-to-rank assignment: deterministic balanced partition, disjoint buffers, state on the owner only
(DESIGN section 4, C14)."""

from __future__ import annotations

import math
import random
from collections import Counter

from .. import gen, shardworld, spec, worldrun
from ..engine import Violation
from ..runner import Outcome
from . import c06, c07, c08, common

ID = "C14"
ENGINE = "multi-rank-world"
LEVEL = "exploration"
DESIGN_REF = "DESIGN.md section 4 (C14)"
TECHNIQUE = (
    "deterministic simulation: cross-rank invariant monitor over the real DDP / HSDP / HybridShard distributors constructed "
    "on every rank of a simulated world (group sizes up to 16): same assignment on all ranks, one owner per block, valid "
    "largest-first/least-loaded execution under any tie-break, load bounds, buffer views inside the owner's segment, "
    "state located on the owner only"
)
LEVEL_TEXT = (
    "Every rank of a simulated world constructs the real distributor (three code copies) and optimizer state; the monitor "
    "reads each rank's assignment, buffer views (offsets from storage pointers) and state placement and checks the "
    "cross-rank clauses plus the per-rank combinatorial clauses on the block-size sequences induced by the sampled "
    "parameter sets (deliberate ties, sizes 16..600 elements, float32/bfloat16/float16 communication)."
)
LEVEL_NOTE = (
    "The pure combinatorial clauses (4/3 bound etc.) are checked on the size sequences the world generator induces; they are "
    "not given their own input enumerator (that would not be this technique). The LPT check accepts any tie-break."
)
BUDGET = {"quick": 45.0, "thorough": 600.0}
RULE = (
    "seeded (layout in {DDP, HSDP, HybridShard} x world/mesh with group size 1..16 x communication dtype x parameter sets whose "
    "blocks mix distinct sizes and ties x 0-2 steps); non-trivial = group size >= 2 and >= 2 distinct aligned block sizes or >= 3 "
    "tied blocks; distinct = distinct (layout, group size, sorted aligned-size sequence)"
)
DISTINCT_MEASURE = "distinct (layout, group size, aligned block-size sequence)"
ASSUMPTIONS = [
    "ownership is read from the distributor's buffer views (owner = segment index) and cross-checked with its selector",
    "a block without any tensor state (no factor, no filtering/momentum/grafting) is exempt from the state-placement clause",
]
COMPONENTS = {
    "real": ["DDPDistributor, HSDPDistributor, HybridShardDistributor (assignment, buffer construction, state allocation)", "DeviceMesh / DTensor state placement"],
    "stub": ["process-group backend, per-rank c10d world, rank threads", "FSDP / fully_shard wrappers (harness sharders)"],
}
REQUIRED_PROBES = {
    "quick": ["assignment_checked", "lpt_replayed", "buffers_checked", "state_placement_checked", "tie_run", "distinct_sizes_run"],
    "thorough": ["assignment_checked", "lpt_replayed", "buffers_checked", "state_placement_checked", "tie_run", "distinct_sizes_run", "group16", "ddp_world", "hsdp_world", "hybrid_shard_world", "bf16_comm"],
}


def aligned(n: int) -> int:
    return (n + 63) // 64 * 64


def check_lpt(sizes: list[int], owners: list[int], m: int) -> tuple[str, dict] | None:
    """Is `owners` a valid largest-first / least-loaded execution under *some* tie-breaking?"""
    order = sorted(range(len(sizes)), key=lambda i: -sizes[i])
    loads = [0] * m
    i = 0
    while i < len(order):
        j = i
        while j < len(order) and sizes[order[j]] == sizes[order[i]]:
            j += 1
        remaining = Counter(owners[b] for b in order[i:j])
        size = sizes[order[i]]
        for _ in range(j - i):
            lo = min(loads)
            pick = next((r for r in sorted(remaining) if remaining[r] > 0 and loads[r] == lo), None)
            if pick is None:
                return "not_lpt_execution", {"size": size, "loads": list(loads), "remaining": dict(remaining)}
            remaining[pick] -= 1
            loads[pick] += size
        i = j
    if sizes:
        big = max(sizes)
        if max(loads) - min(loads) > big:
            return "load_bound_exceeded", {"loads": loads, "largest": big}
        if max(loads) > sum(sizes) / m + big * (1 - 1 / m) + 1e-9:
            return "load_bound_exceeded", {"loads": loads, "largest": big, "mean": sum(sizes) / m}
    return None


def check_c14(trace: dict, outs, probes: Counter) -> Violation | None:
    w = trace["world"]
    comm_item = worldrun.COMM[w["comm_dtype"]].itemsize
    base_ctx = {"world_kind": w["kind"], "world_size": w["size"], "mesh": w.get("mesh"), "num_trainers_per_group": w["num_trainers_per_group"], "comm_dtype": w["comm_dtype"]}
    for gi in range(len(trace["groups"])):
        by_group: dict[tuple, list[tuple[int, dict]]] = {}
        for r, o in enumerate(outs):
            if gi < len(o.groups_info):
                info = o.groups_info[gi]
                by_group.setdefault(tuple(info["group_ranks"]), []).append((r, info))
        for granks, members in by_group.items():
            m = len(granks)
            ctx = {**base_ctx, "param_group": gi, "comm_group": list(granks)}
            if len(members) != m:
                continue  # a member did not report (aborted world): nothing to say
            ref = members[0][1]
            nblocks = len(ref["owners"])
            for r, info in members:
                if info["group_size"] != m:
                    return Violation(ID, "assignment_differs_across_ranks", -1, {**ctx, "rank": r, "note": "group size differs"})
                if info["owners"] != ref["owners"] or [v["offset"] for v in info["views"]] != [v["offset"] for v in ref["views"]]:
                    return Violation(ID, "assignment_differs_across_ranks", -1, {**ctx, "rank_a": members[0][0], "rank_b": r})
                if any(not (0 <= ow < m) for ow in info["owners"]):
                    return Violation(ID, "block_without_owner_or_two", -1, {**ctx, "rank": r, "owners": info["owners"]})
                me = info["group_rank"]
                if [ow == me for ow in info["owners"]] != list(info["selector"]):
                    return Violation(ID, "block_without_owner_or_two", -1, {**ctx, "rank": r, "note": "selector disagrees with buffer ownership"})
            probes["assignment_checked"] += 1
            # one owner per block across the group (selectors partition the blocks)
            cover = [0] * nblocks
            for r, info in members:
                for b, s in enumerate(info["selector"]):
                    cover[b] += 1 if s else 0
            if any(c != 1 for c in cover):
                return Violation(ID, "block_without_owner_or_two", -1, {**ctx, "cover": cover})
            # LPT validity under any tie-break + load bounds
            sizes = [aligned(n * comm_item) for n in ref["block_numels"]]
            bad = check_lpt(sizes, ref["owners"], m)
            probes["lpt_replayed"] += 1
            if len(set(sizes)) >= 2:
                probes["distinct_sizes_run"] += 1
            if max(Counter(sizes).values(), default=0) >= 3:
                probes["tie_run"] += 1
            if m >= 16:
                probes["group16"] += 1
            if bad is not None:
                return Violation(ID, bad[0], -1, {**ctx, **bad[1], "sizes": sizes[:40], "owners": ref["owners"][:40]})
            # buffers
            seg = ref["segment"]
            if seg % 64 != 0 or ref["buffer_total"] != seg * m:
                return Violation(ID, "buffer_not_aligned", -1, {**ctx, "segment": seg, "total": ref["buffer_total"]})
            ivs = []
            for b, (v, ow, numel) in enumerate(zip(ref["views"], ref["owners"], ref["block_numels"])):
                lo, hi = v["offset"], v["offset"] + v["nbytes"]
                if not (ow * seg <= lo and hi <= (ow + 1) * seg):
                    return Violation(ID, "buffer_outside_owner_segment", -1, {**ctx, "block": b, "offset": lo, "nbytes": v["nbytes"], "owner": ow, "segment": seg})
                if v["nbytes"] < numel * comm_item or v["shape"] != ref["block_shapes"][b]:
                    return Violation(ID, "buffer_too_small", -1, {**ctx, "block": b, "nbytes": v["nbytes"], "need": numel * comm_item})
                if (lo - ow * seg) % 64 != 0:
                    return Violation(ID, "buffer_not_aligned", -1, {**ctx, "block": b, "offset_in_segment": lo - ow * seg})
                ivs.append((lo, lo + aligned(v["nbytes"]), b))
            ivs.sort()
            for (a0, a1, b0), (c0, c1, b1) in zip(ivs, ivs[1:]):
                if c0 < a1:
                    return Violation(ID, "buffers_overlap", -1, {**ctx, "block_a": b0, "block_b": b1})
            for r, info in members:
                if info["local_buffer_offset"] != info["group_rank"] * seg or info["local_buffer_nbytes"] != seg:
                    return Violation(ID, "buffer_outside_owner_segment", -1, {**ctx, "rank": r, "note": "local send buffer is not the rank's own segment"})
            probes["buffers_checked"] += 1
            # state placement: local data of a block's state lives on exactly one rank of the group
            g = trace["groups"][gi]
            counted = [pi for pi, c in zip(g["params"], ref["counted_params"]) if c]
            offs = [0]
            for nb in ref["num_blocks_per_param"]:
                offs.append(offs[-1] + nb)
            holders: dict[int, list[int]] = {b: [] for b in range(nblocks)}
            any_state = False
            for r, info in members:
                k = 0
                for pos, (pi, c) in enumerate(zip(g["params"], info["counted_params"])):
                    if not c:
                        continue
                    per = info["state_local_numel"][pos]
                    for key, numel in per.items():
                        if "block_" not in str(key):
                            continue
                        bi = int(str(key).rsplit("block_", 1)[1])
                        gb = offs[k] + bi
                        if numel > 0:
                            any_state = True
                            holders[gb].append(info["group_rank"])
                    k += 1
            if any_state:
                for b, hs in holders.items():
                    ow = ref["owners"][b]
                    if len(hs) == 0:
                        # only legitimate if the block has no tensor state anywhere (leaf-less): then no rank holds any
                        if any(hs2 for hs2 in holders.values()) and _block_should_have_state(trace, gi):
                            return Violation(ID, "state_missing_on_owner", -1, {**ctx, "block": b, "owner": ow})
                        continue
                    if hs != [ow]:
                        return Violation(ID, "state_on_non_owner", -1, {**ctx, "block": b, "owner": ow, "holders": hs})
                probes["state_placement_checked"] += 1
    return None


def _block_should_have_state(trace: dict, gi: int) -> bool:
    cfg = spec.effective_group_config(trace["config"], trace["groups"][gi].get("overrides", {}))
    return cfg["betas"][0] != 0.0 or cfg["momentum"] != 0.0 or (cfg["grafting"] is not None and cfg["grafting"]["type"] != "sgd")


def gen_sized_params(rng: random.Random, dtype: str, min_blocks: int, max_dim: int) -> list[dict]:
    """Parameter sets whose blocks span 16..600 elements with deliberate ties."""
    params = []
    nb = 0
    base = [rng.choice([4, 5, 6, 8, 9, 12, 16, 20, 24]) for _ in range(3)]
    while nb < min_blocks or len(params) < 2 or (rng.random() < 0.5 and len(params) < 14):
        if params and rng.random() < 0.45:
            shape = list(rng.choice(params)["shape"])  # tie
        else:
            shape = [rng.choice(base + [3, 7, 10, 24]), rng.choice(base + [2, 5, 25])]
            if rng.random() < 0.2:
                shape = [rng.choice([16, 32, 40, 64, 100, 150])]
        params.append({"shape": shape, "dtype": dtype, "init_seed": rng.randrange(1 << 30), "init_scale": 1.0})
        nb += len(worldrun.ref_block_numels(shape, max_dim, True))
        if len(params) > 40:
            break
    return params


def generate(rng: random.Random, tier: str) -> dict:
    config = c06.gen_world_config(rng)
    config["use_merge_dims"] = True
    config["max_preconditioner_dim"] = rng.choice([8, 12, 16, 24, 1024, 1024])
    dtype = rng.choice(["float32", "float32", "bfloat16"])
    if dtype == "bfloat16":
        config["preconditioner_dtype"] = "float32"
    kind = rng.choice(["ddp", "ddp", "hsdp", "hybrid_shard"])
    comm = rng.choice(["DEFAULT", "FP32", "BF16", "BF16", "FP16"])
    if kind == "ddp":
        n = rng.choice([2, 3, 4, 4, 6, 8, 8, 12, 16, 16])
        g = rng.choice(c06.divisors(n) + [-1, -1])
        gsize = n if g == -1 else g
        w = {"kind": "ddp", "size": n, "mesh": [n], "num_trainers_per_group": g}
        params = gen_sized_params(rng, dtype, gsize, config["max_preconditioner_dim"])
        groups = [{"params": list(range(len(params))), "overrides": {}}]
    else:
        R, S = rng.choice([(2, 1), (2, 2), (4, 1), (4, 2), (3, 2), (8, 1), (8, 2), (16, 1), (6, 1)])
        n = R * S
        g = rng.choice(c06.divisors(R) + [-1, -1])
        gsize = R if g == -1 else g
        w = {"kind": kind, "size": n, "mesh": [R, S], "num_trainers_per_group": g}
        # every shard must hold >= gsize blocks: S equal row-bands per parameter (dim 0 a multiple of S)
        params = []
        nb = 0
        while nb < gsize or len(params) < 2 or (rng.random() < 0.5 and len(params) < 12):
            if params and rng.random() < 0.4:
                shape = list(rng.choice(params)["shape"])
            else:
                shape = [S * rng.choice([2, 3, 4, 6, 8]), rng.choice([4, 5, 8, 12, 16, 25])]
            params.append({"shape": shape, "dtype": dtype, "init_seed": rng.randrange(1 << 30), "init_scale": 1.0})
            nb += len(worldrun.ref_block_numels([shape[0] // S, shape[1]], config["max_preconditioner_dim"], True))
            if len(params) > 40:
                break
        if kind == "hsdp":
            # flat-parameter chunking: verify every shard holds >= gsize blocks, otherwise add equal parameters
            def min_blocks() -> int:
                numels = [math.prod(p["shape"]) for p in params]
                rngs = shardworld.flat_shard_ranges(numels, S)
                worst = 10**9
                for s_ in range(S):
                    nb_ = 0
                    for pi, (a, b) in enumerate(rngs[s_]):
                        for _, _, sh in shardworld.ref_split(params[pi]["shape"], a, b):
                            nb_ += len(worldrun.ref_block_numels(list(sh), config["max_preconditioner_dim"], True))
                    worst = min(worst, nb_)
                return worst

            guard = 0
            while min_blocks() < gsize and guard < 60:
                guard += 1
                params.append({"shape": [rng.choice([4, 6, 8]), rng.choice([4, 5, 8])], "dtype": dtype, "init_seed": rng.randrange(1 << 30), "init_scale": 1.0})
            if min_blocks() < gsize:
                config["max_preconditioner_dim"] = 2
        groups = [{"params": list(range(len(params))), "overrides": {}}]
    w.update(communicate_params=rng.random() < 0.4, comm_dtype=comm, stickiness=rng.choice([0.0, 0.5, 0.9]), weights=[rng.choice([1.0, 1.0, 0.1]) for _ in range(n)])
    trace = {"schema": 1, "property": ID, "engine": "world", "config": config, "groups": groups, "params": params, "world": w, "schedule_seed": rng.randrange(1 << 30), "schedule": None}
    n_steps = rng.choice([0, 0, 1, 2]) if n <= 8 else 0
    trace["events"] = [{"op": "step", "g": [[rng.randrange(1 << 30), "gauss", 1.0] for _ in params]} for _ in range(n_steps)]
    if n_steps == 0 and rng.random() < 0.3:
        # a parameter frozen (requires_grad=False) at construction still has an owner, a buffer view and state
        trace["frozen"] = [rng.randrange(len(params))]
    return trace


def execute(trace: dict) -> Outcome:
    common.quiet_logs()
    probes: Counter = Counter()
    w = trace["world"]
    sim, outs = c08.run_world(trace, trace["schedule_seed"], trace.get("schedule"))
    probes[f"{w['kind']}_world"] += 1
    if w["comm_dtype"] == "BF16":
        probes["bf16_comm"] += 1
    if trace.get("frozen"):
        probes["frozen_param_world"] += 1
    v = None
    from .c06 import natural_world_failure

    if sim.outcome == "rank_failed" and natural_world_failure(trace, sim, outs):
        # a diverged trajectory (parameters overflowing a 16-bit communication dtype, then NaN factor matrices): the step
        # raises as documented; the construction-time clauses below are still checked
        probes["ended_by_divergence"] += 1
    elif sim.outcome != "ok":
        r = next((r for r in sim.ranks if r.exc is not None), None)
        v = Violation(ID, "unexpected_exception", -1, {"world_kind": w["kind"], "outcome": sim.outcome, "exc_type": type(r.exc).__name__ if r else None, "exc": str(r.exc)[:300] if r else None, "tb": r.exc_tb[-600:] if r else None})
    if v is None:
        v = check_c14(trace, outs, probes)
    gsize = None
    sizes = ()
    for o in outs:
        if o.groups_info:
            info = o.groups_info[0]
            gsize = info["group_size"]
            sizes = tuple(sorted(aligned(n * worldrun.COMM[w["comm_dtype"]].itemsize) for n in info["block_numels"]))
            break
    nontrivial = bool(gsize and gsize >= 2 and (len(set(sizes)) >= 2 or (sizes and max(Counter(sizes).values()) >= 3)))
    return Outcome(
        violation=v,
        probes=probes,
        nontrivial=nontrivial,
        abstract=[(w["kind"], gsize, sizes)],
        steps=sum(len(o.snaps) for o in outs),
        sched_events=len(sim.choices),
        interleaving=spec.digest(sim.choices),
        digest=worldrun.world_digest(sim, outs),
    )


from .c06 import sample_view  # noqa: E402,F401

"""C03 - eigenvalue-corrected Shampoo (SOAP) is Adam run in a valid factor eigenbasis (DESIGN section 4, C03)."""

from __future__ import annotations

import random

from .. import engine, gen
from ..runner import Outcome
from . import common

ID = "C03"
ENGINE = "single-node-history"
LEVEL = "exploration"
DESIGN_REF = "DESIGN.md section 4 (C03), 3.1, 3.3, 3.5"
TECHNIQUE = "deterministic simulation: seeded histories against the real SOAP lists; basis invariants after every step (orthonormal, diagonalising / orthogonal iterate, refreshed only on schedule) + per-step refinement vs float64 reference model"
LEVEL_TEXT = (
    "Seeded search over eigh/QR configurations x dtype pairings x ignored dims x grafting/momentum/decay x block orders x "
    "histories with absent gradients and rank-deficient early factors. After every step every stored basis is checked for "
    "orthonormality, bitwise constancy off schedule, diagonalisation (eigh) or being an orthogonal iterate of the previous "
    "basis (QR, Gram-Schmidt matching over the determined prefix), and corrected eigenvalues / parameters are refined against the model."
)
LEVEL_NOTE = (
    "Trusted: float64 recomputation of one QR step; QR chains of several iterations are only judged for gross disagreement "
    "because round-off is amplified by eigenvalue ratios per iteration (counted as undecidable otherwise)."
)
BUDGET = {"quick": 50.0, "thorough": 600.0}
RULE = (
    "seeded (SOAP configuration x parameters x groups x history) as for C01 with the eigenvalue-corrected preconditioner; "
    "non-trivial = at least one block step refined and one basis checked; distinct = distinct (config feature vector, phases x presence classes)"
)
ASSUMPTIONS = [
    "the QR basis may be any iterate 1..max_iterations of the previous basis (the stopping rule is not part of the property)",
    "rank-deficient power steps constrain only the determined leading columns of the Q factor",
    "direction and corrected eigenvalues are computed with the basis stored after the step (validated by the invariants)",
    "bfloat16 is never the preconditioner dtype (no CPU eigh kernel)",
]
COMPONENTS = common.COMPONENTS_SINGLE
REQUIRED_PROBES = {
    "quick": ["block_steps_checked", "basis_checked", "basis_diagonalisation_checked", "basis_qr_iterate_checked"],
    "thorough": [
        "block_steps_checked",
        "basis_checked",
        "basis_diagonalisation_checked",
        "basis_qr_iterate_checked",
        "refresh_with_mask_change_since_last",
        "order3plus_block",
        "block_without_factor",
        "dtype_mismatch_run",
        "ignored_dims_run",
    ],
}


def generate(rng: random.Random, tier: str) -> dict:
    t = gen.gen_single_trace(rng, ID, tier, kind="soap")
    if rng.random() < 0.15:
        # nearly stationary factor matrices: every step repeats the first gradient of each parameter (this is where an
        # orthogonal iteration meets its tolerance criterion)
        first: dict[int, list] = {}
        for ev in t["events"]:
            if ev["op"] == "step":
                for i, g in enumerate(ev["g"]):
                    if g is not None:
                        first.setdefault(i, list(g))
                        ev["g"][i] = list(first[i])
        t["stationary"] = True
    return t


def execute(trace: dict) -> Outcome:
    common.quiet_logs()
    run = engine.SingleRun(trace, [engine.FrozenMonitor(), engine.RefOracle(), engine.SoapBasisOracle()], ID)
    v = run.run()
    run.probes["dtype_mismatch_run"] += 1 if any(f["dtype_mismatch"] for f in run.features) else 0
    run.probes["ignored_dims_run"] += 1 if any(f["ignored_dims"] for f in run.features) else 0
    run.probes["stationary_history_run"] += 1 if trace.get("stationary") else 0
    return Outcome(
        violation=v,
        probes=run.probes,
        nontrivial=run.probes.get("block_steps_checked", 0) > 0 and run.probes.get("basis_checked", 0) > 0,
        abstract=common.abstract_states(run),
        steps=run.steps_done,
        digest=run.final_digest,
    )


from .c01 import sample_view  # noqa: E402,F401

"""C07 - FSDP/HSDP Shampoo equals serial Shampoo on the shard's recovered tensor blocks (DESIGN section 4, C07)."""

from __future__ import annotations

import math
import random
from collections import Counter

from .. import gen, shardworld, spec, worldrun
from ..engine import Violation
from ..runner import Outcome
from . import c06, c08, common

ID = "C07"
ENGINE = "multi-rank-world"
LEVEL = "exploration"
DESIGN_REF = "DESIGN.md section 4 (C07), 2.1-2.3, 3.2-3.5"
TECHNIQUE = (
    "deterministic simulation: shard ranks (and replicate x shard meshes for HSDP) of the real FSDP/HSDP distributors over "
    "flat-parameter shards + metadata in the simulated world; per-rank serial twin over an independent decomposition of each "
    "shard into maximal shape-respecting slabs; cross-rank partition check; HSDP: replica agreement, collective history, "
    "deadlock detector, lossy communication, rank skew"
)
LEVEL_TEXT = (
    "Seeded search over original shapes of order 1..4, 1..8 shard ranks with flat-parameter chunking (shards starting/ending "
    "mid-row, parameters split across ranks, empty local shards), HSDP replicate sizes / group sizes / communication options, "
    "configurations, presence histories and schedules. Each rank's flat shards are compared after every step with a "
    "single-process optimizer over the reference slabs; the slabs of all shard ranks must partition every parameter."
)
LEVEL_NOTE = (
    "FSDP itself and compile_fsdp_parameter_metadata are not executed: the property starts from 'given flattened parameter "
    "shards and their metadata', which a harness sharder produces (even chunks with padding, as FlatParamHandle). Same "
    "simulated-backend assumptions as C06."
)
BUDGET = {"quick": 55.0, "thorough": 600.0}
RULE = (
    "seeded (shapes x shard count x [replicate size, group size, communication options] x configuration x presence history x "
    "schedule); non-trivial = at least one twin comparison on a shard that is a proper sub-range of some parameter; distinct = "
    "distinct (mesh, options, config features, per-rank shard ranges, presence classes)"
)
ASSUMPTIONS = [
    "a flattened parameter's gradient is present or absent as a whole and identically on replicas",
    "every rank keeps at least one block per group (constructor precondition); HSDP presence is ownership-aware except for a small starvation share",
    "the reference decomposition ref_split is independent of the repository's two copies of split-tensor-block recovery",
]
COMPONENTS = {
    "real": ["DistributedShampoo, FSDPDistributor, HSDPDistributor (incl. both copies of _split_tensor_block_recovery)", "DeviceMesh 2-D + sub-meshes, DTensor state, torch.distributed python layer"],
    "stub": ["FSDP1 wrapper and compile_fsdp_parameter_metadata (harness flat-parameter sharder builds FSDPParameterMetadata)", "process-group backend, per-rank c10d world, rank threads", "model/autograd"],
}
REQUIRED_PROBES = {
    "quick": ["exact_compare", "world_ge2", "midrow_shard", "empty_shard", "fsdp_world", "hsdp_world", "partition_checked"],
    "thorough": ["exact_compare", "lossy_compare", "world_ge2", "midrow_shard", "empty_shard", "fsdp_world", "hsdp_world", "partition_checked", "replica_compare", "presence_changed_world", "multi_slab_shard"],
}


def generate(rng: random.Random, tier: str, allow_starve: bool = True) -> dict:
    config = c06.gen_world_config(rng)
    dtype = rng.choice(["float32", "float32", "float32", "float64", "bfloat16"])
    if dtype == "bfloat16":
        config["preconditioner_dtype"] = "float32"
    hsdp = rng.random() < 0.5
    if hsdp:
        R, S = rng.choice([(1, 2), (2, 1), (2, 2), (2, 2), (2, 3), (3, 2), (4, 2), (2, 4), (4, 1), (3, 1)])
        n = R * S
        g = rng.choice(c06.divisors(R) + [-1])
        gsize = R if g == -1 else g
        w = {
            "kind": "hsdp",
            "size": n,
            "mesh": [R, S],
            "num_trainers_per_group": g,
            "communicate_params": rng.random() < 0.4,
            "comm_dtype": rng.choice(["DEFAULT", "DEFAULT", "FP32", "FP16", "BF16"]),
        }
    else:
        n = rng.choice([1, 2, 2, 3, 3, 4, 5, 6, 8])
        S, gsize = n, 1
        w = {"kind": "fsdp", "size": n, "mesh": [n], "num_trainers_per_group": 1, "communicate_params": False, "comm_dtype": "DEFAULT"}
    w["stickiness"] = rng.choice([0.0, 0.0, 0.5, 0.9, 0.98])
    w["weights"] = [rng.choice([1.0, 1.0, 1.0, 0.1, 0.02]) for _ in range(n)]
    # parameters: one or two groups; the flat parameter is the concatenation of all parameters in order
    for _attempt in range(60):
        n_params = rng.choice([1, 2, 2, 3, 4, 5])
        params = [
            {"shape": gen.gen_shape(rng, max_numel=240, min_order=1), "dtype": dtype, "init_seed": rng.randrange(1 << 30), "init_scale": 1.0}
            for _ in range(n_params)
        ]
        groups_n = min(n_params, rng.choice([1, 1, 2]))
        cut = sorted(rng.sample(range(1, n_params), groups_n - 1)) if groups_n > 1 else []
        parts = [list(range(a, b)) for a, b in zip([0] + cut, cut + [n_params])]
        groups = []
        for gi, part in enumerate(parts):
            ov = {}
            if gi > 0:
                other = gen.gen_config(rng, simple_solver=True)
                for key in rng.sample(["lr", "betas", "momentum", "weight_decay", "precondition_frequency", "use_merge_dims", "use_merge_dims"], 2):
                    ov[key] = (not config["use_merge_dims"]) if key == "use_merge_dims" else other[key]
            groups.append({"params": part, "overrides": ov})
        numels = [math.prod(p["shape"]) for p in params]
        ranges = shardworld.flat_shard_ranges(numels, S)
        ok = True
        for s in range(S):
            for g_ in groups:
                eff = spec.effective_group_config(config, g_["overrides"])
                nb = 0
                for pi in g_["params"]:
                    a, b = ranges[s][pi]
                    for _, _, sh in shardworld.ref_split(params[pi]["shape"], a, b):
                        nb += len(worldrun.ref_block_numels(list(sh), eff["max_preconditioner_dim"], eff["use_merge_dims"]))
                if nb < max(1, gsize):
                    ok = False
        if ok:
            break
    else:
        # fall back: a single group of S equal parameters (one per shard) with enough blocks
        params = [{"shape": [max(2, gsize), 4], "dtype": dtype, "init_seed": rng.randrange(1 << 30), "init_scale": 1.0} for _ in range(S)]
        groups = [{"params": list(range(S)), "overrides": {}}]
        config["max_preconditioner_dim"] = 2
    c06.mix_dtypes(rng, params, dtype)
    trace = {"schema": 1, "property": ID, "engine": "world", "config": config, "groups": groups, "params": params, "world": w, "schedule_seed": rng.randrange(1 << 30), "schedule": None}
    n_events = rng.choice([1, 2, 3, 4, 6, 8] + ([12, 16] if tier == "thorough" else []))
    style = gen.gen_presence_style(rng, len(params))
    style["never"] = []
    starving_run = rng.random() < 0.1 and allow_starve
    events = []
    prev = None
    prev_g = [None] * len(params)
    for s in range(n_events):
        if events and rng.random() < 0.08:
            # a scheduler write between two steps (every rank applies it at the same point of its own history)
            key = rng.choice(["lr", "weight_decay"])
            val = gen.f32r(rng, 1e-3, 0.5) if key == "lr" else rng.choice([0.0, 1e-2, 0.1])
            events.append({"op": "set_hparam", "group": rng.randrange(len(groups)), "key": key, "value": val})
        if events and rng.random() < 0.05:
            events.append({"op": "poke", "param": rng.randrange(len(params)), "scale": rng.choice([0.5, 0.9, 1.25, -1.0, 2.0])})
        mask = gen.gen_mask(rng, style, len(params), s, prev)
        if hsdp and gsize > 1 and not starving_run:
            for g_ in groups:
                on = rng.random() < 0.8
                for pi in g_["params"]:
                    mask[pi] = on
        g = []
        for i in range(len(params)):
            if mask[i]:
                gr = gen.gen_grad(rng, prev_g[i])
                gr[2] = rng.choice([1.0, 1.0, 0.1, 10.0])
                prev_g[i] = gr
                g.append(gr)
            else:
                g.append(None)
        events.append({"op": "step", "g": g})
        prev = mask
    trace["events"] = events
    trace["check_schedule_invariance"] = tier == "thorough" or rng.random() < 0.25
    return trace


def check_partition(trace: dict, outs, probes: Counter) -> Violation | None:
    """Across the shard ranks every element of every original parameter lies in exactly one slab (so it is updated
    exactly once per step), and the distributor's blocks on each rank cover exactly the rank's shard."""
    w = trace["world"]
    S = w["mesh"][-1]
    seen: dict[int, list[int]] = {pi: [0] * math.prod(p["shape"]) for pi, p in enumerate(trace["params"])}
    done = set()
    for o in outs:
        if "ranges" not in o.extra or o.extra["ranges"] is None or o.extra["shard_rank"] in done:
            continue
        done.add(o.extra["shard_rank"])
        for pi, (s, e) in enumerate(o.extra["ranges"]):
            slabs = shardworld.ref_split(trace["params"][pi]["shape"], s, e)
            if len(slabs) > 1:
                probes["multi_slab_shard"] += 1
            for a, b, sh in slabs:
                for i in range(a, b):
                    seen[pi][i] += 1
    if len(done) == S:
        for pi, cnt in seen.items():
            if any(c != 1 for c in cnt):
                return Violation(ID, "element_updated_not_once", -1, {"param": pi, "zero": sum(1 for c in cnt if c == 0), "multi": sum(1 for c in cnt if c > 1)})
        probes["partition_checked"] += 1
    return None


def execute(trace: dict) -> Outcome:
    common.quiet_logs()
    probes: Counter = Counter()
    w = trace["world"]
    sim, outs = c08.run_world(trace, trace["schedule_seed"], trace.get("schedule"))
    probes[f"{w['kind']}_world"] += 1
    if c06.ran_ahead(sim):
        probes["rank_runs_ahead_one_step"] += 1
    v = c08.evaluate_sharded(trace, sim, outs, ID, probes, w["kind"])
    if v is None and sim.outcome == "ok":
        v = check_partition(trace, outs, probes)
    v = v or c08.schedule_invariance(trace, sim, outs, ID, probes)
    feats = c06.world_features(trace)
    ranges = tuple(tuple(map(tuple, o.extra.get("ranges") or [])) for o in outs)
    proper = any(0 < (e - s) < math.prod(trace["params"][pi]["shape"]) for o in outs for pi, (s, e) in enumerate(o.extra.get("ranges") or []))
    return Outcome(
        violation=v,
        probes=probes,
        faults=Counter(
            {
                "absent_grad_steps": sum(1 for e in trace["events"] if e["op"] == "step" and any(g is None for g in e["g"])),
                "hparam_write": sum(1 for e in trace["events"] if e["op"] == "set_hparam"),
                "param_poke": sum(1 for e in trace["events"] if e["op"] == "poke"),
                "empty_shard": probes.get("empty_shard", 0),
                "rank_starved": probes.get("starved_history", 0),
                "rank_skew_run": 1 if (w.get("stickiness", 0) > 0 or min(w.get("weights") or [1.0]) < 1.0) else 0,
                "lossy_comm_run": 1 if probes.get("lossy_compare", 0) else 0,
            }
        ),
        nontrivial=(proper or w["size"] >= 2) and probes.get("exact_compare", 0) + probes.get("lossy_compare", 0) > 0,
        abstract=[(tuple(sorted((k, str(x)) for k, x in feats.items())), tuple(w.get("mesh", [])), ranges, probes.get("presence_changed_world", 0) > 0, sim.outcome)],
        steps=sum(len(o.snaps) for o in outs),
        sched_events=len(sim.choices),
        interleaving=spec.digest(sim.choices),
        digest=worldrun.world_digest(sim, outs),
    )


from .c06 import sample_view  # noqa: E402,F401

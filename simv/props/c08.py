"""C08 - fully_shard / hybrid-shard Shampoo equals serial Shampoo on local shards (DESIGN section 4, C08)."""

from __future__ import annotations

import random
from collections import Counter

import torch

from .. import gen, shardworld, spec, world, worldrun
from ..engine import Violation
from ..runner import Outcome
from . import c06, common

ID = "C08"
ENGINE = "multi-rank-world"
LEVEL = "exploration"
DESIGN_REF = "DESIGN.md section 4 (C08), 2.1-2.3, 3.2-3.5"
TECHNIQUE = (
    "deterministic simulation: N ranks of the real FullyShard / HybridShard distributors over real dim-0 sharded DTensor "
    "parameters in the simulated world (seeded rank scheduler, simulated collectives); per-rank serial twin over the local "
    "shards, replica agreement, collective history, deadlock detector; faults: absent DTensor gradients, empty shards, rank "
    "starvation, rank skew, lossy communication"
)
LEVEL_TEXT = (
    "Seeded search over 1-D meshes of 1..8 ranks and (replicate x shard) meshes, torch.chunk-style uneven and empty shards, "
    "communication options, configurations, presence histories and schedules. Every rank's local shards are compared after "
    "every step with a single-process optimizer over those local tensors as ordinary parameters; empty shards must never get state."
)
LEVEL_NOTE = (
    "The fully_shard wrapper is a stub: parameters and gradients are real DTensors built with DTensor.from_local "
    "(run_check=False) from torch.chunk pieces. Same simulated backend assumptions as C06."
)
BUDGET = {"quick": 55.0, "thorough": 600.0}
RULE = (
    "seeded (mesh: 1-D n in 1..8 or replicate x shard up to 8 ranks; parameters of order 1..4 with dim 0 from 1..9 so that "
    "some ranks receive no rows; num_trainers_per_group dividing the replicate size; communication options; configuration; "
    "presence history; schedule); non-trivial = at least one twin comparison on a world with >= 2 ranks; distinct = distinct "
    "(mesh, options, config features, empty-shard pattern, presence classes)"
)
ASSUMPTIONS = [
    "every rank keeps at least one non-empty parameter per group (constructor precondition)",
    "gradients identical on replicas; DTensor gradients built from the same chunks as the parameters",
    "HybridShard presence patterns are ownership-aware; starvation histories are a separate small share (finding F3 lives in the shared step())",
]
COMPONENTS = {
    "real": ["DistributedShampoo, FullyShardDistributor, HybridShardDistributor", "DTensor parameters/gradients/state, DeviceMesh (1-D, 2-D, sub-meshes), torch.distributed python layer"],
    "stub": ["fully_shard wrapper (harness builds the sharded DTensors)", "process-group backend, per-rank c10d world, rank threads under the seeded scheduler", "model/autograd"],
}
REQUIRED_PROBES = {
    "quick": ["exact_compare", "world_ge2", "empty_shard", "uneven_dim0_shard", "fully_shard_world", "hybrid_shard_world"],
    "thorough": [
        "exact_compare",
        "lossy_compare",
        "world_ge2",
        "empty_shard",
        "uneven_dim0_shard",
        "fully_shard_world",
        "hybrid_shard_world",
        "replica_compare",
        "presence_changed_world",
        "rank_runs_ahead_one_step",
    ],
}


def local_rows(d0: int, S: int, idx: int) -> int:
    if d0 == 0:
        return 0
    per = -(-d0 // S)
    n_chunks = -(-d0 // per)
    if idx >= n_chunks:
        return 0
    return min(per, d0 - idx * per)


def generate(rng: random.Random, tier: str, allow_starve: bool = True) -> dict:
    config = c06.gen_world_config(rng)
    dtype = rng.choice(["float32", "float32", "float32", "float64", "bfloat16"])
    if dtype == "bfloat16":
        config["preconditioner_dtype"] = "float32"
    hybrid = rng.random() < 0.5
    if hybrid:
        R, S = rng.choice([(1, 2), (2, 1), (2, 2), (2, 2), (2, 3), (3, 2), (4, 2), (2, 4), (4, 1), (3, 1)])
        n = R * S
        g = rng.choice(c06.divisors(R) + [-1])
        gsize = R if g == -1 else g
        w = {
            "kind": "hybrid_shard",
            "size": n,
            "mesh": [R, S],
            "num_trainers_per_group": g,
            "communicate_params": rng.random() < 0.4,
            "comm_dtype": rng.choice(["DEFAULT", "DEFAULT", "FP32", "FP16", "BF16"]),
        }
    else:
        n = rng.choice([1, 2, 2, 3, 3, 4, 5, 6, 8])
        S, gsize = n, 1
        w = {"kind": "fully_shard", "size": n, "mesh": [n], "num_trainers_per_group": 1, "communicate_params": False, "comm_dtype": "DEFAULT"}
    w["stickiness"] = rng.choice([0.0, 0.0, 0.5, 0.9, 0.98])
    w["weights"] = [rng.choice([1.0, 1.0, 1.0, 0.1, 0.02]) for _ in range(n)]
    groups_n = rng.choice([1, 1, 2])
    params: list[dict] = []
    groups: list[dict] = []
    for gi in range(groups_n):
        ov = {}
        if gi > 0:
            other = gen.gen_config(rng, simple_solver=True)
            for key in rng.sample(["lr", "betas", "momentum", "weight_decay", "precondition_frequency", "use_merge_dims", "use_merge_dims"], 2):
                ov[key] = (not config["use_merge_dims"]) if key == "use_merge_dims" else other[key]
        eff = spec.effective_group_config(config, ov)
        mine: list[int] = []
        for _ in range(40):
            # every shard rank needs >= gsize blocks of non-empty local tensors in this group
            ok = True
            for s in range(S):
                nb = 0
                for pi in mine:
                    sh = params[pi]["shape"]
                    rows = local_rows(sh[0], S, s)
                    if rows:
                        nb += len(worldrun.ref_block_numels([rows] + sh[1:], eff["max_preconditioner_dim"], eff["use_merge_dims"]))
                if nb < max(1, gsize):
                    ok = False
            if ok and mine and rng.random() < 0.6:
                break
            shape = gen.gen_shape(rng, max_numel=200, min_order=1)
            if rng.random() < 0.5:
                shape[0] = rng.choice([1, 2, 3, 4, 5, 7, 9])
            if len(mine) >= 3 and not ok:
                # make sure every shard rank receives rows of something in this group
                shape = [S * rng.choice([1, 2])] + [rng.choice([1, 2, 3, 4]) for _ in range(rng.choice([0, 1, 2]))]
                if gsize > 1:
                    shape = [S * rng.choice([1, 2]), max(2, gsize), rng.choice([2, 3])]
                    eff_md = eff["max_preconditioner_dim"]
                    if eff_md >= 4:
                        config["max_preconditioner_dim"] = rng.choice([1, 2])
                        eff = spec.effective_group_config(config, ov)
            params.append({"shape": shape, "dtype": dtype, "init_seed": rng.randrange(1 << 30), "init_scale": 1.0})
            mine.append(len(params) - 1)
        groups.append({"params": mine, "overrides": ov})
    c06.mix_dtypes(rng, params, dtype)
    trace = {"schema": 1, "property": ID, "engine": "world", "config": config, "groups": groups, "params": params, "world": w, "schedule_seed": rng.randrange(1 << 30), "schedule": None}
    n_events = rng.choice([1, 2, 3, 4, 6, 8] + ([12, 16] if tier == "thorough" else []))
    style = gen.gen_presence_style(rng, len(params))
    style["never"] = []
    starving_run = rng.random() < 0.1 and allow_starve
    events = []
    prev = None
    prev_g = [None] * len(params)
    for s in range(n_events):
        if events and rng.random() < 0.08:
            # a scheduler write between two steps (every rank applies it at the same point of its own history)
            key = rng.choice(["lr", "weight_decay"])
            val = gen.f32r(rng, 1e-3, 0.5) if key == "lr" else rng.choice([0.0, 1e-2, 0.1])
            events.append({"op": "set_hparam", "group": rng.randrange(len(groups)), "key": key, "value": val})
        if events and rng.random() < 0.05:
            events.append({"op": "poke", "param": rng.randrange(len(params)), "scale": rng.choice([0.5, 0.9, 1.25, -1.0, 2.0])})
        mask = gen.gen_mask(rng, style, len(params), s, prev)
        if hybrid and gsize > 1 and not starving_run:
            # a group that is present or absent as a whole never starves an owner (finding F3 lives in the shared step())
            for g_ in groups:
                on = rng.random() < 0.8
                for pi in g_["params"]:
                    mask[pi] = on
        g = []
        for i in range(len(params)):
            if mask[i]:
                gr = gen.gen_grad(rng, prev_g[i])
                gr[2] = rng.choice([1.0, 1.0, 0.1, 10.0])
                prev_g[i] = gr
                g.append(gr)
            else:
                g.append(None)
        events.append({"op": "step", "g": g})
        prev = mask
    trace["events"] = events
    trace["check_schedule_invariance"] = tier == "thorough" or rng.random() < 0.25
    return trace


def evaluate_sharded(trace: dict, sim, outs, prop: str, probes: Counter, kind: str) -> Violation | None:
    """Shared by C07/C08: liveness, history, replicas along the replicate dimension, per-rank twin."""
    w = trace["world"]
    ctx = c06.world_features(trace)
    ctx["mesh"] = w.get("mesh")
    n = w["size"]
    if n >= 2:
        probes["world_ge2"] += 1
    progress = [r.progress for r in sim.ranks]
    prev_mask = None
    first_starved = None
    for ei, ev in enumerate(trace["events"]):
        if ev["op"] != "step":
            continue
        mask = [g is not None for g in ev["g"]]
        if prev_mask is not None and mask != prev_mask:
            probes["presence_changed_world"] += 1
        prev_mask = mask
        if kind in ("hsdp", "hybrid_shard"):
            sr = worldrun.starved_ranks(trace, outs, ev)
            if sr and first_starved is None:
                first_starved = (ei, sr)
    if first_starved is not None:
        probes["starved_history"] += 1
    ctx["starved"] = first_starved is not None
    if sim.mismatch is not None:
        return Violation(prop, "collective_mismatch", min(progress), {**ctx, "mismatch": sim.mismatch, "starved": first_starved is not None and first_starved[0] <= max(progress)})
    if sim.outcome == "deadlock":
        ev_i = min(progress)
        return Violation(prop, "deadlock", ev_i, {**ctx, "blocked": sim.deadlock_info, "progress": progress, "starved": first_starved is not None and first_starved[0] <= max(progress)})
    if sim.outcome == "step_cap":
        return Violation(prop, "deadlock", min(progress), {**ctx, "livelock": True})
    if sim.outcome == "rank_failed":
        if c06.natural_world_failure(trace, sim, outs):
            probes["ended_by_divergence"] += 1
        else:
            r = next(r for r in sim.ranks if r.exc is not None)
            return Violation(prop, "unexpected_exception", r.progress, {**ctx, "rank": r.idx, "exc_type": type(r.exc).__name__, "exc": str(r.exc)[:300], "tb": r.exc_tb[-800:]})
    v = worldrun.check_history(sim, prop, ctx)
    if v is not None:
        return v
    # replicas: ranks with the same shard rank hold the same local shards
    by_shard: dict[int, list[int]] = {}
    for r, o in enumerate(outs):
        if "shard_rank" in o.extra:
            by_shard.setdefault(o.extra["shard_rank"], []).append(r)
    if kind in ("hsdp", "hybrid_shard"):
        v = worldrun.check_replicas(outs, prop, ctx, [rs for rs in by_shard.values() if len(rs) > 1], probes)
        if v is not None:
            return v
    last = min(progress) - 1
    checked_shards = set()
    for r, o in enumerate(outs):
        if "initial" not in o.extra:
            continue
        sk = o.extra["shard_rank"]
        # every rank is compared (replicas included): a defect may hit only one owner
        layout = []
        for pi, loc in enumerate(o.extra["initial"]):
            if loc.numel() == 0:
                probes["empty_shard"] += 1 if sk not in checked_shards else 0
                if o.extra["state_presence"][pi]["has"] and o.extra["state_presence"][pi]["keys"]:
                    return Violation(prop, "empty_shard_has_state", -1, {**ctx, "rank": r, "param": pi, "keys": o.extra["state_presence"][pi]["keys"][:4]})
                continue
            if kind in ("fsdp", "hsdp"):
                s, e = o.extra["ranges"][pi]
                for a, b, sh in shardworld.ref_split(trace["params"][pi]["shape"], s, e):
                    layout.append((pi, a - s, b - s, tuple(sh)))
                    if sk not in checked_shards and (a % max(1, int(torch.tensor(trace["params"][pi]["shape"][1:]).prod()) if len(trace["params"][pi]["shape"]) > 1 else 1)) != 0:
                        probes["midrow_shard"] += 1
            else:
                layout.append((pi, 0, loc.numel(), tuple(loc.shape)))
                full0 = trace["params"][pi]["shape"][0]
                if sk not in checked_shards and loc.shape[0] * (w["mesh"][-1]) != full0:
                    probes["uneven_dim0_shard"] += 1
        checked_shards.add(sk)
        if kind in ("fsdp", "hsdp"):
            S = w["mesh"][-1] if kind == "hsdp" else w["size"]
            ranges = o.extra["ranges"]

            def local_of_full(pi, full, ranges=ranges):
                s, e = ranges[pi]
                return full.reshape(-1)[s:e]

        else:
            S = w["mesh"][-1]

            def local_of_full(pi, full, S=S, sk=sk):
                return shardworld.dim0_chunk(full, S, sk)

        v = worldrun.compare_with_twin(
            trace, o, layout, None, local_of_full, prop, {**ctx, "rank": r}, probes, last, lossy_possible=kind in ("hsdp", "hybrid_shard")
        )
        if v is not None:
            if v.tag == "diverges_from_serial":
                v.tag = "local_shard_diverges_from_twin" if kind in ("fully_shard", "hybrid_shard") else "shard_diverges_from_slab_twin"
            return v
    return None


def schedule_invariance(trace: dict, sim, outs, prop: str, probes: Counter) -> Violation | None:
    """Same world, another seeded schedule: outcome and every rank's parameters after every step must be identical."""
    w = trace["world"]
    if not trace.get("check_schedule_invariance") or w["size"] < 2 or sim.outcome != "ok" or w["kind"] not in ("hsdp", "hybrid_shard"):
        return None
    sim2, outs2 = run_world(trace, trace["schedule_seed"] ^ 0x5A5A5A5, None)
    probes["schedule_invariance_checked"] += 1
    if sim2.outcome != sim.outcome:
        return Violation(prop, "schedule_dependent_result", -1, {**c06.world_features(trace), "outcome_a": sim.outcome, "outcome_b": sim2.outcome})
    for r in range(w["size"]):
        for ei in outs[r].snaps:
            if ei in outs2[r].snaps and worldrun.digest_params(outs[r].snaps[ei]) != worldrun.digest_params(outs2[r].snaps[ei]):
                return Violation(prop, "schedule_dependent_result", ei, {**c06.world_features(trace), "rank": r})
    return None


def run_world(trace: dict, schedule_seed: int, schedule=None):
    w = trace["world"]
    outs = [worldrun.RankOut() for _ in range(w["size"])]
    world.install()
    sim = world.Sim(w["size"], schedule_seed, schedule, w.get("stickiness", 0.0), w.get("weights"))
    sim.run(shardworld.make_rank_main(trace, outs))
    return sim, outs


def execute(trace: dict) -> Outcome:
    common.quiet_logs()
    probes: Counter = Counter()
    w = trace["world"]
    sim, outs = run_world(trace, trace["schedule_seed"], trace.get("schedule"))
    probes[f"{w['kind']}_world"] += 1
    if c06.ran_ahead(sim):
        probes["rank_runs_ahead_one_step"] += 1
    v = evaluate_sharded(trace, sim, outs, ID, probes, w["kind"])
    v = v or schedule_invariance(trace, sim, outs, ID, probes)
    feats = c06.world_features(trace)
    empties = tuple(tuple(int(t.numel() == 0) for t in o.extra.get("initial", [])) for o in outs)
    return Outcome(
        violation=v,
        probes=probes,
        faults=Counter(
            {
                "absent_grad_steps": sum(1 for e in trace["events"] if e["op"] == "step" and any(g is None for g in e["g"])),
                "hparam_write": sum(1 for e in trace["events"] if e["op"] == "set_hparam"),
                "param_poke": sum(1 for e in trace["events"] if e["op"] == "poke"),
                "empty_shard": probes.get("empty_shard", 0),
                "rank_starved": probes.get("starved_history", 0),
                "rank_skew_run": 1 if (w.get("stickiness", 0) > 0 or min(w.get("weights") or [1.0]) < 1.0) else 0,
                "lossy_comm_run": 1 if probes.get("lossy_compare", 0) else 0,
            }
        ),
        nontrivial=w["size"] >= 2 and probes.get("exact_compare", 0) + probes.get("lossy_compare", 0) > 0,
        abstract=[(tuple(sorted((k, str(x)) for k, x in feats.items())), tuple(w.get("mesh", [])), empties, probes.get("presence_changed_world", 0) > 0, sim.outcome)],
        steps=sum(len(o.snaps) for o in outs),
        sched_events=len(sim.choices),
        interleaving=spec.digest(sim.choices),
        digest=worldrun.world_digest(sim, outs),
    )


from .c06 import sample_view  # noqa: E402,F401

"""C04 - parameters without a gradient are untouched and never cross-wire state (DESIGN section 4, C04)."""

from __future__ import annotations

import random
from collections import Counter

import torch

from .. import engine, gen, spec
from ..engine import Violation
from ..runner import Outcome
from . import common

ID = "C04"
ENGINE = "single-node-history"
LEVEL = "exploration"
DESIGN_REF = "DESIGN.md section 4 (C04), 3.3"
TECHNIQUE = (
    "deterministic simulation: adversarial gradient-presence histories (fault = absent gradient) against the real optimizer; "
    "bitwise frozen-state monitor + per-block refinement pinned to each block's own pre-state; a share of the histories runs on "
    "every rank of a simulated multi-rank world (DDP / FSDP / HSDP / fully_shard / hybrid shard) under the seeded scheduler"
)
LEVEL_TEXT = (
    "Seeded search over presence histories built adversarially (flip every step, all-absent steps, never-present "
    "parameters, one parameter toggling per step, whole groups absent) over parameter sets with equal-shaped and multi-block "
    "parameters. Absent parameters are compared bit-for-bit (value and every state tensor) around every step; group "
    "counters must advance iff the group has a gradient; present blocks are refined against the reference model from "
    "their own pre-state, so a misaligned selector shows as a mismatch even when shapes agree. World mode: the same bitwise "
    "monitor (local parameter shard, every local state tensor, group counters) runs on every rank of DDP / FSDP / HSDP / "
    "fully_shard / hybrid-shard worlds, where an absent parameter's value also passes through gather buffers."
)
LEVEL_NOTE = "Trusted: own state walker over optimizer.state (not the repository's flatten/state_dict); reference model as in C01."
BUDGET = {"quick": 50.0, "thorough": 600.0}
RULE = (
    "seeded (configuration incl. Shampoo and SOAP x >= 2 parameters with repeated shapes x 1-3 groups x adversarial presence "
    "history of 2..24 (thorough 60) events); non-trivial = at least one absent parameter checked inside a step where its group "
    "or another group was active; distinct = distinct (config feature vector, phases x presence classes visited)"
)
ASSUMPTIONS = [
    "param.grad itself is not optimizer state (coupled decay edits gradients in place); fresh gradient tensors are assigned every step",
    "the group's step counter lives under the group's first parameter and legitimately advances while that parameter is absent",
]
COMPONENTS = {
    "real": common.COMPONENTS_SINGLE["real"] + ["world mode: DDP / FSDP / HSDP / FullyShard / HybridShard distributors, DTensor state, torch.distributed front-end"],
    "stub": common.COMPONENTS_SINGLE["stub"] + ["world mode: c10d backend and rank scheduling (simulated world)"],
}
REQUIRED_PROBES = {
    "quick": ["absent_param_checked", "absent_param_in_active_group", "presence_changed", "all_absent_group_step", "block_steps_checked"],
    "thorough": [
        "absent_param_checked",
        "absent_param_in_active_group",
        "presence_changed",
        "all_absent_group_step",
        "block_steps_checked",
        "refresh_with_mask_change_since_last",
        "equal_shaped_params_run",
        "multi_group_run",
        "never_present_param_run",
        "world_run",
        "world_absent_param_checked",
        "world_communicate_params",
    ],
}


def generate_world(rng: random.Random, tier: str) -> dict:
    """A C06 / C07 / C08 world with a history that never starves a block owner (finding F3 is theirs), early absences
    (a parameter that has not had a gradient yet) and whole groups absent."""
    from . import c06, c07, c08

    which = rng.choice(["ddp", "ddp", "flat", "dtensor"])
    if which == "ddp":
        from .. import worldrun

        t = c06.generate(rng, "quick")
        gsize = t["world"]["size"] if t["world"]["num_trainers_per_group"] == -1 else t["world"]["num_trainers_per_group"]
        itemsize = worldrun.COMM[t["world"]["comm_dtype"]].itemsize
        t["events"] = c06.gen_world_history(rng, t, gsize, itemsize, len(t["events"]), starve=False)
        if rng.random() < 0.5:
            # a parameter whose first gradient arrives late (its value has never passed through the optimizer before the
            # steps in which it must stay untouched), kept non-starving under the predicted ownership
            owners = c06.predicted_param_owners(t, gsize, itemsize)
            pi = rng.randrange(len(t["params"]))
            k = rng.choice([1, 2, 3])
            for ev in [e for e in t["events"] if e["op"] == "step"][:k]:
                mask = [g is not None for g in ev["g"]]
                mask[pi] = False
                mask = c06.repair_mask(rng, t, owners, gsize, mask)
                for i, on in enumerate(mask):
                    if not on:
                        ev["g"][i] = None
                    elif ev["g"][i] is None:
                        ev["g"][i] = gen.gen_grad(rng)
                        ev["g"][i][2] = 1.0
    else:
        t = (c07 if which == "flat" else c08).generate(rng, "quick", allow_starve=False)
    t.pop("check_schedule_invariance", None)
    t.update(property=ID, engine="world-absent")
    return t


def generate(rng: random.Random, tier: str) -> dict:
    if rng.random() < 0.12:
        return generate_world(rng, tier)
    kind = rng.choice(["shampoo", "shampoo", "soap"])
    config = gen.gen_config(rng, kind=kind)
    dtype = rng.choice(["float32", "float32", "float64", "float64", "bfloat16"])
    if dtype == "bfloat16":
        config["preconditioner_dtype"] = rng.choice(["float32", "float64"])
    n_params = rng.choice([2, 2, 3, 3, 4, 5])
    params = gen.gen_params(rng, n_params, dtype)
    if rng.random() < 0.5:
        # force equal-shaped parameters (a misaligned selector cannot hide behind a shape error)
        j = rng.randrange(n_params)
        for i in rng.sample(range(n_params), rng.choice([1, 2])):
            params[i]["shape"] = list(params[j]["shape"])
    groups = gen.gen_groups(rng, n_params, config)
    style = gen.gen_presence_style(rng, n_params)
    style["style"] = rng.choice(["flip", "adversarial", "adversarial", "random", "sticky"])
    style["all_absent"] = rng.choice([0.0, 0.1, 0.2])
    if rng.random() < 0.3:
        style["never"] = [rng.randrange(n_params)]
    max_ev = 60 if tier == "thorough" else 24
    n_events = rng.choice([2, 3, 4, 6, 8, 10, 12, 16, 20, max_ev])
    events = gen.gen_history(rng, params, groups, config, n_events, style=style, poke_rate=0.04)
    return {"schema": 1, "property": ID, "engine": "single", "config": config, "groups": groups, "params": params, "world": None, "events": events, "style": style}


def execute_world(trace: dict) -> Outcome:
    """The bitwise absent-parameter monitor on every rank of a simulated world."""
    from .. import shardworld, world, worldrun

    w = trace["world"]
    n = w["size"]
    results: list[Violation | None] = [None] * n
    rank_probes = [Counter() for _ in range(n)]
    outs = [worldrun.RankOut() for _ in range(n)]
    feats = {"world_kind": w["kind"], "world_size": n, "mesh": w.get("mesh"), "communicate_params": w["communicate_params"], "comm_dtype": w["comm_dtype"]}

    def rank_main(rank: int, sim) -> None:
        probes = rank_probes[rank]
        prog = shardworld.PROGRAMS[w["kind"]](trace, rank, sim)
        prog.setup()
        if w["kind"] in ("ddp", "hsdp", "hybrid_shard"):
            outs[rank].groups_info = shardworld.collect_group_info_generic(prog)
        opt = prog.opt
        ctx = sim.me()
        sim.yield_()
        for ei, ev in enumerate(trace["events"]):
            if ev["op"] == "set_hparam":
                opt.param_groups[ev["group"]][ev["key"]] = ev["value"]
                continue
            if ev["op"] == "poke":
                with torch.no_grad():
                    spec._local(prog.params[ev["param"]]).mul_(ev["scale"])
                probes["world_param_poked"] += 1
                continue
            prog.set_grads(ev)
            pre_p = prog.snapshot()
            pre_s = {pi: spec.snapshot_state(opt, p) for pi, p in enumerate(prog.params) if ev["g"][pi] is None and p in opt.state}
            firsts = [g["params"][0] for g in trace["groups"]]
            pre_t = [int(opt.state[prog.params[fi]]["step"].item()) if prog.params[fi] in opt.state else None for fi in firsts]
            opt.step()  # (an exception ends the rank: classified below)
            post_p = prog.snapshot()
            for pi, g in enumerate(ev["g"]):
                if g is not None:
                    continue
                probes["world_absent_param_checked"] += 1
                if not spec.bit_equal(pre_p[pi], post_p[pi]):
                    results[rank] = Violation(ID, "absent_param_value_changed", ei, {**feats, "rank": rank, "param": pi, "never_had_gradient": all(e["op"] != "step" or e["g"][pi] is None for e in trace["events"][:ei])})
                    return
                if pi in pre_s:
                    post_s = spec.snapshot_state(opt, prog.params[pi])
                    for path, t0 in pre_s[pi].items():
                        if path == ("step",):
                            continue  # the group's counter lives under the group's first parameter
                        if path not in post_s or not spec.bit_equal(t0, post_s[path]):
                            results[rank] = Violation(ID, "absent_param_state_changed:" + "/".join(str(x) for x in path if not str(x).startswith("block_")), ei, {**feats, "rank": rank, "param": pi, "path": [str(x) for x in path]})
                            return
            for gi, g in enumerate(trace["groups"]):
                if pre_t[gi] is None:
                    continue
                now = int(opt.state[prog.params[firsts[gi]]]["step"].item())
                if all(ev["g"][pi] is None for pi in g["params"]):
                    probes["world_all_absent_group_step"] += 1
                    if now != pre_t[gi]:
                        results[rank] = Violation(ID, "step_counter_advanced_without_gradient", ei, {**feats, "rank": rank, "group": gi})
                        return
            ctx.progress = ei + 1
            sim.record("event_done", ei)
            sim.yield_()

    world.install()
    sim = world.Sim(n, trace["schedule_seed"], trace.get("schedule"), w.get("stickiness", 0.0), w.get("weights"))
    sim.run(rank_main)
    probes: Counter = Counter()
    for rp in rank_probes:
        probes.update(rp)
    probes["world_run"] += 1
    probes[f"world_{w['kind']}"] += 1
    if w["communicate_params"]:
        probes["world_communicate_params"] += 1
    v = next((r for r in results if r is not None), None)
    starving = [ei for ei, ev in enumerate(trace["events"]) if ev["op"] == "step" and worldrun.starved_ranks(trace, outs, ev)]
    if starving:
        # a block owner without any gradient under the assignment actually made: finding F3 (C06-C08), no verdict here
        probes["history_starves_under_actual_assignment"] += 1
        v = None
    elif v is None and sim.outcome == "rank_failed":
        from .c06 import natural_world_failure

        r = next(r for r in sim.ranks if r.exc is not None)
        msg = str(r.exc)
        if isinstance(r.exc, ValueError) and ("factor matrix" in msg or "exceeded the allowed tolerance" in msg or "eigenvectors" in msg):
            probes["ended_by_natural_solver_failure"] += 1  # a diverged / ill-conditioned trajectory, as in the single engine
        else:
            v = Violation(ID, "unexpected_exception", r.progress, {**feats, "rank": r.idx, "exc_type": type(r.exc).__name__, "exc": str(r.exc)[:300], "tb": r.exc_tb[-600:]})
    elif v is None and sim.outcome != "ok":
        probes["world_liveness_not_judged_here"] += 1  # deadlock / collective mismatch are C06-C08's clauses
    if v is None and not starving and sim.outcome == "ok" and any(e["op"] == "step" and any(g is None for g in e["g"]) for e in trace["events"]):
        # second clause in worlds: with some gradients absent, the parameters that do have gradients are updated with their
        # own state only - the serial twin of the corresponding world property (re-synchronised every step) decides
        from . import c06, c08

        if w["kind"] == "ddp":
            sim2, outs2 = c06.run_world_once(trace, trace["schedule_seed"], trace.get("schedule"))
            v2 = c06.evaluate_ddp_like(trace, sim2, outs2, ID, probes, [list(range(n))]) if sim2.outcome == "ok" else None
        else:
            sim2, outs2 = c08.run_world(trace, trace["schedule_seed"], trace.get("schedule"))
            v2 = c08.evaluate_sharded(trace, sim2, outs2, ID, probes, w["kind"]) if sim2.outcome == "ok" else None
        probes["world_twin_compared"] += 1
        if v2 is not None and v2.tag in ("diverges_from_serial", "shard_diverges_from_slab_twin", "local_shard_diverges_from_twin", "rounding_regime_exceeded"):
            v = Violation(ID, "present_param_cross_wired:" + v2.tag, v2.event, {**feats, **{k: x for k, x in v2.context.items() if not k.startswith("f_")}})
    return Outcome(
        violation=v,
        probes=probes,
        nontrivial=probes.get("world_absent_param_checked", 0) > 0,
        abstract=[(tuple(sorted((k, str(x)) for k, x in feats.items())), "world")],
        steps=sum(1 for e in trace["events"] if e["op"] == "step") * n,
        sched_events=len(sim.choices),
        interleaving=spec.digest(sim.choices),
        faults={"absent_grad": probes.get("world_absent_param_checked", 0), "all_absent_step": probes.get("world_all_absent_group_step", 0)},
    )


def execute(trace: dict) -> Outcome:
    common.quiet_logs()
    if trace.get("engine") == "world-absent":
        return execute_world(trace)
    # (roots and bases are checked too: a block that was absent for a while must still get *its own* root when it comes
    # back - bookkeeping shared between blocks, e.g. a list-level flag set from the present blocks only, shows there)
    oracles = [engine.FrozenMonitor(), engine.RefOracle(check_roots=True)]
    run = engine.SingleRun(trace, oracles, ID)
    v = run.run()
    shapes = [tuple(p["shape"]) for p in trace["params"]]
    run.probes["equal_shaped_params_run"] += 1 if len(set(shapes)) < len(shapes) else 0
    run.probes["multi_group_run"] += 1 if len(trace["groups"]) > 1 else 0
    run.probes["never_present_param_run"] += 1 if trace.get("style", {}).get("never") else 0
    return Outcome(
        violation=v,
        probes=run.probes,
        nontrivial=run.probes.get("absent_param_checked", 0) > 0,
        abstract=common.abstract_states(run),
        steps=run.steps_done,
        digest=run.final_digest,
        faults={"absent_grad": run.probes.get("absent_param_checked", 0), "all_absent_step": run.probes.get("all_absent_group_step", 0)},
    )


def sample_view(trace: dict) -> dict:
    if trace.get("engine") == "world-absent":
        from .c06 import sample_view as sv
    else:
        from .c01 import sample_view as sv
    return sv(trace)

"""C04 - parameters without a gradient are untouched and never cross-wire state (DESIGN section 4, C04)."""

from __future__ import annotations

import random

from .. import engine, gen
from ..runner import Outcome
from . import common

ID = "C04"
ENGINE = "single-node-history"
LEVEL = "exploration"
DESIGN_REF = "DESIGN.md section 4 (C04), 3.3"
TECHNIQUE = "deterministic simulation: adversarial gradient-presence histories (fault = absent gradient) against the real optimizer; bitwise frozen-state monitor + per-block refinement pinned to each block's own pre-state"
LEVEL_TEXT = (
    "Seeded search over presence histories built adversarially (flip every step, all-absent steps, never-present "
    "parameters, one parameter toggling per step, whole groups absent) over parameter sets with equal-shaped and multi-block "
    "parameters. Absent parameters are compared bit-for-bit (value and every state tensor) around every step; group "
    "counters must advance iff the group has a gradient; present blocks are refined against the reference model from "
    "their own pre-state, so a misaligned selector shows as a mismatch even when shapes agree."
)
LEVEL_NOTE = "Trusted: own state walker over optimizer.state (not the repository's flatten/state_dict); reference model as in C01."
BUDGET = {"quick": 50.0, "thorough": 600.0}
RULE = (
    "seeded (configuration incl. Shampoo and SOAP x >= 2 parameters with repeated shapes x 1-3 groups x adversarial presence "
    "history of 2..24 (thorough 60) events); non-trivial = at least one absent parameter checked inside a step where its group "
    "or another group was active; distinct = distinct (config feature vector, phases x presence classes visited)"
)
ASSUMPTIONS = [
    "param.grad itself is not optimizer state (coupled decay edits gradients in place); fresh gradient tensors are assigned every step",
    "the group's step counter lives under the group's first parameter and legitimately advances while that parameter is absent",
]
COMPONENTS = common.COMPONENTS_SINGLE
REQUIRED_PROBES = {
    "quick": ["absent_param_checked", "absent_param_in_active_group", "presence_changed", "all_absent_group_step", "block_steps_checked"],
    "thorough": [
        "absent_param_checked",
        "absent_param_in_active_group",
        "presence_changed",
        "all_absent_group_step",
        "block_steps_checked",
        "refresh_with_mask_change_since_last",
        "equal_shaped_params_run",
        "multi_group_run",
        "never_present_param_run",
    ],
}


def generate(rng: random.Random, tier: str) -> dict:
    kind = rng.choice(["shampoo", "shampoo", "soap"])
    config = gen.gen_config(rng, kind=kind)
    dtype = rng.choice(["float32", "float32", "float64", "float64", "bfloat16"])
    if dtype == "bfloat16":
        config["preconditioner_dtype"] = rng.choice(["float32", "float64"])
    n_params = rng.choice([2, 2, 3, 3, 4, 5])
    params = gen.gen_params(rng, n_params, dtype)
    if rng.random() < 0.5:
        # force equal-shaped parameters (a misaligned selector cannot hide behind a shape error)
        j = rng.randrange(n_params)
        for i in rng.sample(range(n_params), rng.choice([1, 2])):
            params[i]["shape"] = list(params[j]["shape"])
    groups = gen.gen_groups(rng, n_params, config)
    style = gen.gen_presence_style(rng, n_params)
    style["style"] = rng.choice(["flip", "adversarial", "adversarial", "random", "sticky"])
    style["all_absent"] = rng.choice([0.0, 0.1, 0.2])
    if rng.random() < 0.3:
        style["never"] = [rng.randrange(n_params)]
    max_ev = 60 if tier == "thorough" else 24
    n_events = rng.choice([2, 3, 4, 6, 8, 10, 12, 16, 20, max_ev])
    events = gen.gen_history(rng, params, groups, config, n_events, style=style)
    return {"schema": 1, "property": ID, "engine": "single", "config": config, "groups": groups, "params": params, "world": None, "events": events, "style": style}


def execute(trace: dict) -> Outcome:
    common.quiet_logs()
    oracles = [engine.FrozenMonitor(), engine.RefOracle(check_roots=False)]
    run = engine.SingleRun(trace, oracles, ID)
    v = run.run()
    shapes = [tuple(p["shape"]) for p in trace["params"]]
    run.probes["equal_shaped_params_run"] += 1 if len(set(shapes)) < len(shapes) else 0
    run.probes["multi_group_run"] += 1 if len(trace["groups"]) > 1 else 0
    run.probes["never_present_param_run"] += 1 if trace.get("style", {}).get("never") else 0
    return Outcome(
        violation=v,
        probes=run.probes,
        nontrivial=run.probes.get("absent_param_checked", 0) > 0,
        abstract=common.abstract_states(run),
        steps=run.steps_done,
        digest=run.final_digest,
        faults={"absent_grad": run.probes.get("absent_param_checked", 0), "all_absent_step": run.probes.get("all_absent_group_step", 0)},
    )


from .c01 import sample_view  # noqa: E402,F401

"""C18 - a PT2-compiled step computes the same update as the eager step (DESIGN section 4, C18)."""

from __future__ import annotations

import random
from collections import Counter

import torch

from .. import engine, gen, refmodel, spec
from ..engine import Oracle, SingleRun
from ..runner import Outcome
from . import common

ID = "C18"
ENGINE = "single-node-history"
LEVEL = "exploration"
DESIGN_REF = "DESIGN.md section 4 (C18)"
TECHNIQUE = (
    "deterministic simulation: two real optimizers (eager and torch.compile with the eager / aot_eager backends; static, dynamic "
    "and auto-dynamic shapes) driven in lock-step by the same seeded history across the warm-up switch, refresh steps and "
    "gradient-presence changes that force recompilation; parameters and complete state compared after every step"
)
LEVEL_TEXT = (
    "Seeded search over configurations covering every branch of the group step x compile mode x histories with presence "
    "changes. The compiled optimizer is real dynamo; a probe on dynamo's graph counter proves the compiled path ran. "
    "Comparison after every step of parameters and the whole optimizer state, expected bitwise, reported beyond the exact-"
    "equivalence tolerance of DESIGN 3.5."
)
LEVEL_NOTE = (
    "Single rank (dynamo keeps per-thread state; it is not run inside the rank threads of the multi-rank world). Inductor is "
    "out of scope (the property names eager-numerics backends); CPU only. torch._dynamo.reset() before every run."
)
BUDGET = {"quick": 75.0, "thorough": 600.0}
RULE = (
    "seeded (configuration x backend in {eager, aot_eager} x dynamic in {False, True, None} x parameters x history of 3..10 "
    "(thorough 16) events crossing the switch and refresh steps with presence changes); non-trivial = dynamo compiled >= 1 graph "
    "and >= 1 step compared; distinct = distinct (config features, backend, shape mode, phases x presence classes)"
)
ASSUMPTIONS = [
    "a run whose compiled optimizer compiled no graph is a harness error (compiled_path_not_taken), never a pass",
    "recompile cache limit raised so that presence changes recompile instead of silently falling back to eager",
]
COMPONENTS = {**common.COMPONENTS_SINGLE, "real_extra": ["torch._dynamo with the eager and aot_eager backends (torch 2.5.1)"]}
REQUIRED_PROBES = {
    "quick": ["compiled_step_compared", "dynamo_graphs_compiled", "presence_changed", "refresh_step"],
    "thorough": ["compiled_step_compared", "dynamo_graphs_compiled", "presence_changed", "refresh_step", "recompile_after_mask_change", "backend_eager", "backend_aot_eager", "mode_dynamic", "mode_auto", "soap_run"],
}


class CompiledTwin(Oracle):
    def on_built(self, run: SingleRun) -> None:
        import torch._dynamo as dynamo

        dynamo.reset()
        dynamo.utils.counters.clear()  # (reset() keeps the statistics counters: the graph count is per run, not per process)
        dynamo.config.cache_size_limit = 64
        self.tparams = [p.detach().clone().requires_grad_(True) for p in run.params]
        self.topt = spec.build_optimizer(run.trace, self.tparams)  # pt2 from the trace
        run.log.take()
        self.graphs_before = 0
        self.last_graphs = 0

    def on_hparam(self, run: SingleRun, ei: int, ev: dict) -> None:
        self.topt.param_groups[ev["group"]][ev["key"]] = ev["value"]

    def on_poke(self, run: SingleRun, ei: int, ev: dict) -> None:
        with torch.no_grad():
            self.tparams[ev["param"]].mul_(ev["scale"])

    def pre_step(self, run: SingleRun, ei: int, ev: dict) -> None:
        for p, tp in zip(run.params, self.tparams):
            tp.grad = None if p.grad is None else p.grad.detach().clone()
        self.prev = [tp.detach().clone() for tp in self.tparams]
        # magnitude of every state tensor before the step: an update that cancels (momentum against a new direction of the
        # opposite sign) is compared relative to its operands, not to the cancelled result
        self.prev_scale = [
            {path: (float(t.detach().abs().max()) if t.numel() and t.dtype.is_floating_point else 0.0) for path, t in spec.walk_state(run.opt.state[p])}
            if p in run.opt.state
            else {}
            for p in run.params
        ]

    def post_step(self, run: SingleRun, ei: int, ev: dict, exc: BaseException | None) -> None:
        from torch._dynamo.utils import counters

        from ..worldrun import exact_tol, rel_param_gap

        texc = None
        try:
            self.topt.step()
        except Exception as e:  # noqa: BLE001
            texc = e
        run.log.take()
        graphs = int(counters["stats"]["unique_graphs"])
        if graphs > self.last_graphs and self.last_graphs > 0 and run.probes.get("presence_changed", 0) > 0:
            run.probes["recompile_after_mask_change"] += 1
        self.last_graphs = graphs
        run.dynamo_graphs = graphs
        if exc is not None or texc is not None:
            if (exc is None) != (texc is None):
                msg = repr(texc)
                kind = "other"
                if "share the same storage" in msg and "dynamic shapes" in msg:
                    kind = "aot_aliased_mutated_inputs_dynamic_shapes"
                elif "size_bytes_is_heap_allocated" in msg:
                    kind = "aot_symbolic_storage_size"
                pt2 = run.trace["config"]["pt2"]
                raise run.violation(
                    "compiled_raises",
                    0,
                    eager=repr(exc)[:300],
                    compiled=msg[:600],
                    compiled_exc_kind=kind,
                    compiled_exc_type=type(texc).__name__,
                    pt2_backend=pt2["backend"],
                    pt2_dynamic=str(pt2["dynamic"]),
                )
            return
        for pi, (a, e) in enumerate(zip(self.tparams, run.params)):
            a, e = a.detach(), e.detach()
            if not (refmodel.is_finite(a) and refmodel.is_finite(e)):
                run.probes["nonfinite_state_skip"] += 1
                continue
            gap = rel_param_gap(a, e, self.prev[pi])
            if spec.bit_equal(a, e):
                run.probes["compiled_bit_equal"] += 1
            if gap > exact_tol(a.dtype):
                raise run.violation("compiled_param_diverges", run.param_group_of[pi], param=pi, gap=gap, tol=exact_tol(a.dtype))
            sa = dict(spec.walk_state(self.topt.state[self.tparams[pi]]))
            se = dict(spec.walk_state(run.opt.state[run.params[pi]]))
            if set(sa) != set(se):
                raise run.violation("compiled_state_diverges:keys", run.param_group_of[pi], param=pi)
            for path, t in sa.items():
                te = se[path]
                if t.dtype.is_floating_point:
                    if not (refmodel.is_finite(t) and refmodel.is_finite(te)):
                        continue
                    scale = max(float(te.abs().max()) if te.numel() else 0.0, self.prev_scale[pi].get(path, 0.0), 1e-300)
                    gap = float((t.to(torch.float64) - te.to(torch.float64)).abs().max()) / scale if t.numel() else 0.0
                    if gap > exact_tol(t.dtype if t.dtype in (torch.float64, torch.float32, torch.bfloat16) else torch.float32):
                        raise run.violation(
                            "compiled_state_diverges:" + "/".join(str(x) for x in path if not str(x).startswith("block_")),
                            run.param_group_of[pi],
                            param=pi,
                            path=[str(x) for x in path],
                            gap=gap,
                        )
                elif not torch.equal(t, te):
                    raise run.violation(
                        "compiled_state_diverges:" + "/".join(str(x) for x in path if not str(x).startswith("block_")),
                        run.param_group_of[pi],
                        param=pi,
                        path=[str(x) for x in path],
                    )
        run.probes["compiled_step_compared"] += 1
        with torch.no_grad():
            # per-step refinement: the compiled twin continues from the eager system's parameters *and* state, so legitimate
            # last-bit differences (aot_eager decompositions round low-precision intermediates differently) do not accumulate
            for tp, p in zip(self.tparams, run.params):
                tp.copy_(p.detach())
                if p in run.opt.state and tp in self.topt.state:
                    se = dict(spec.walk_state(run.opt.state[p]))
                    for path, t in spec.walk_state(self.topt.state[tp]):
                        te = se.get(path)
                        if te is not None and te.shape == t.shape and t.dtype == te.dtype:
                            t.copy_(te)


def generate(rng: random.Random, tier: str) -> dict:
    kind = rng.choice(["shampoo", "shampoo", "soap"])
    config = gen.gen_config(rng, kind=kind, simple_solver=True)
    if kind == "shampoo":
        config["preconditioner"]["solver"]["enhance_stability"] = False
    config["epsilon"] = rng.choice([1e-6, 1e-4, 1e-2, 1e-1])
    freq = rng.choice([1, 2, 3])
    config["precondition_frequency"] = freq
    config["start_preconditioning_step"] = rng.choice([-1, freq, freq + 1, freq + 2])
    config["pt2"] = {"backend": rng.choice(["eager", "aot_eager"]), "dynamic": rng.choice([False, False, True, None])}
    if rng.random() < 0.15:
        # long averaging windows: 1 - beta^t cancels, so the precision in which a step-dependent scalar is evaluated (a python
        # float outside the traced region, a float32 0-d tensor inside it) becomes visible in the first steps
        config["betas"][0] = rng.choice([0.999, 0.9999])
        config["beta3"] = rng.choice([-1.0, config["betas"][0]])
        config["use_bias_correction"] = True
    dtype = rng.choice(["float32", "float32", "float64", "bfloat16"])
    if dtype == "bfloat16":
        # low-precision parameters and gradients with float32 factor matrices: scalar-times-tensor products are
        # evaluated in the dtype the traced program gives them
        config["preconditioner_dtype"] = "float32"
    n_params = rng.choice([1, 2, 2, 3])
    params = gen.gen_params(rng, n_params, dtype, max_numel=120)
    groups = gen.gen_groups(rng, n_params, config, max_groups=2)
    if rng.random() < 0.25:
        # two param groups that can share one compiled graph: same block shapes and dtypes, hyper-parameters equal except
        # (possibly) the learning rate
        n_params = rng.choice([2, 4])
        half = n_params // 2
        params = params[:half] if len(params) >= half else gen.gen_params(rng, half, dtype, max_numel=120)
        params = params + [dict(p, init_seed=rng.randrange(1 << 30)) for p in params]
        groups = [{"params": list(range(half)), "overrides": {}}, {"params": list(range(half, n_params)), "overrides": ({"lr": gen.f32r(rng, 1e-3, 0.5)} if rng.random() < 0.5 else {})}]
        if rng.random() < 0.5:
            config["weight_decay"] = rng.choice([1e-2, 0.1])
    n_events = rng.choice([3, 4, 6, 8, 10] + ([16] if tier == "thorough" else []))
    style = gen.gen_presence_style(rng, n_params)
    style["style"] = rng.choice(["all", "sticky", "adversarial", "random"])
    events = gen.gen_history(rng, params, groups, config, n_events, hparam_rate=0.08, style=style, poke_rate=0.04)
    for ev in events:
        if ev["op"] == "step":
            for g in ev["g"]:
                if g is not None:
                    g[2] = rng.choice([1.0, 1.0, 0.1, 10.0])
    return {"schema": 1, "property": ID, "engine": "single", "config": config, "groups": groups, "params": params, "world": None, "events": events}


def execute(trace: dict) -> Outcome:
    common.quiet_logs()
    import logging

    logging.getLogger("torch").setLevel(logging.ERROR)
    twin = CompiledTwin()
    ref = engine.RefOracle(check_roots=False, fault_aware=True)  # only used for presence/phase probes
    run = SingleRun(trace, [ref, twin], ID, pt2=None)
    run.dynamo_graphs = 0
    v = run.run()
    pt2 = trace["config"]["pt2"]
    run.probes[f"backend_{pt2['backend']}"] += 1
    run.probes["mode_" + {False: "static", True: "dynamic", None: "auto"}[pt2["dynamic"]]] += 1
    if trace["config"]["preconditioner"]["kind"] == "soap":
        run.probes["soap_run"] += 1
    run.probes["dynamo_graphs_compiled"] += run.dynamo_graphs
    if v is None and sum(run.counters) > 0 and run.dynamo_graphs == 0:
        from ..adapter import HarnessError

        raise HarnessError("compiled_path_not_taken: dynamo compiled no graph for the compiled optimizer")
    return Outcome(
        violation=v,
        probes=run.probes,
        faults=Counter({"recompile_pressure": run.probes.get("recompile_after_mask_change", 0), "absent_grad_steps": sum(1 for e in trace["events"] if e["op"] == "step" and any(g is None for g in e["g"]))}),
        nontrivial=run.dynamo_graphs > 0 and run.probes.get("compiled_step_compared", 0) > 0 and sum(run.counters) > 0,
        abstract=[(pt2["backend"], str(pt2["dynamic"]), a) for a in common.abstract_states(run)],
        steps=run.steps_done,
        digest=run.final_digest,
    )


def sample_view(trace: dict) -> dict:
    from .c01 import sample_view as sv

    d = sv(trace)
    d["pt2"] = trace["config"]["pt2"]
    return d

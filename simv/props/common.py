"""Shared pieces of the single-node property modules."""

from __future__ import annotations

import logging

import torch

from .. import engine, refmodel, spec
from ..runner import Outcome

COMPONENTS_SINGLE = {
    "real": [
        "DistributedShampoo (optimizer, step, param groups)",
        "Distributor (merge/blocking)",
        "Shampoo / eigenvalue-corrected / Adagrad / SGD preconditioner lists",
        "matrix_functions (inverse roots, eigenvectors)",
        "optimizer state objects",
    ],
    "stub": ["model/autograd: gradients are seeded generated tensors"],
}

_quiet_done = False


def quiet_logs() -> None:
    global _quiet_done
    if _quiet_done:
        return
    _quiet_done = True
    logging.getLogger().setLevel(logging.ERROR)
    torch.set_num_threads(1)


def abstract_states(run: engine.SingleRun) -> list:
    """(config feature vector, phases visited, presence classes) per group: the 'distinct abstract states' measure."""
    out = []
    for gi, f in enumerate(run.features):
        out.append((tuple(sorted((k, str(v)) for k, v in f.items())), tuple(sorted(getattr(run, "phases_seen", {}).get(gi, ())))))
    return out

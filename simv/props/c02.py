"""C02 - warm-up equals the grafted torch.optim optimizer; later its step norm is kept (DESIGN section 4, C02)."""

from __future__ import annotations

import random

from .. import engine, gen, spec
from ..runner import Outcome
from . import common

ID = "C02"
ENGINE = "single-node-history"
LEVEL = "exploration"
DESIGN_REF = "DESIGN.md section 4 (C02), 3.2, 3.5"
TECHNIQUE = "deterministic simulation: seeded gradient/presence histories, lock-step torch.optim twin during warm-up, per-block norm/cosine invariant after the switch"
LEVEL_TEXT = (
    "Seeded search over the five grafting targets x hyper-parameters in the mathematically identical range x shapes / "
    "blocking / merge settings x warm-up lengths x presence histories; PyTorch's own optimizer is the reference model, "
    "advanced in lock-step and compared after every step; after the switch every block's step norm and direction are "
    "checked against the reference model's grafted / Shampoo directions."
)
LEVEL_NOTE = (
    "Trusted: torch.optim single-tensor implementations as oracle; float64 runs carry the assurance (rtol 1e-9 plus the "
    "single-precision bias-correction slack), float32/bfloat16 runs exercise dtype plumbing."
)
BUDGET = {"quick": 45.0, "thorough": 600.0}
RULE = (
    "per run: target in {SGD, Adagrad, RMSprop, Adam, AdamW} with the hyper-parameter mapping under which both formulations "
    "coincide; random shapes (order 0..4), max_preconditioner_dim, merge on/off, 1-2 groups, warm-up 1..30 steps, presence "
    "patterns (Adam variants: whole-group presence only); 40% of runs switch to preconditioning early with momentum=0 and "
    "decay=0 to observe norm transfer. Non-trivial = at least one twin comparison or norm-transfer check; distinct = distinct "
    "(target, config features, phases visited)"
)
ASSUMPTIONS = [
    "equivalence is claimed only where the formulations are mathematically identical: SGD/RMSprop dampening=0, Adagrad/RMSprop/SGD beta1=0, Adam beta3=beta1 with bias correction and momentum=0",
    "Adam variants: every parameter of a group is present or absent together (Shampoo keeps one step counter per group)",
    "twin parameters are re-synchronised to the optimizer under test after each comparison",
    "norm transfer is observed only with momentum=0 and weight_decay=0 (delta_block = -lr*P)",
]
COMPONENTS = {**common.COMPONENTS_SINGLE, "reference": ["torch.optim.SGD/Adagrad/RMSprop/Adam/AdamW (foreach=False)"]}
REQUIRED_PROBES = {
    "quick": ["torch_optim_compare", "norm_transfer_checked"],
    "thorough": ["torch_optim_compare", "norm_transfer_checked", "target_sgd", "target_adagrad", "target_rmsprop", "target_adam", "target_adamw", "presence_changed"],
}


def generate(rng: random.Random, tier: str) -> dict:
    target = rng.choice(["sgd", "adagrad", "rmsprop", "adam", "adamw"])
    norm_mode = rng.random() < 0.4
    c = gen.gen_config(rng, kind=rng.choice(["shampoo", "shampoo", "soap"]), simple_solver=True)
    c["preconditioner"]["solver"]["enhance_stability"] = False if c["preconditioner"]["kind"] == "shampoo" else None
    if c["preconditioner"]["kind"] == "soap":
        c["preconditioner"]["solver"] = {"type": "eigh", "retry": True}
    c["dampening"] = 0.0
    c["use_nesterov"] = False
    c["epsilon"] = rng.choice([1e-6, 1e-4, 1e-2, 1e-1])
    geps = rng.choice([1e-10, 1e-8, 1e-5, 1e-3])
    gb2 = rng.choice([0.9, 0.99, 0.999, round(rng.uniform(0.5, 0.999), 3)])
    if target == "sgd":
        c["grafting"] = {"type": "sgd"}
        c["betas"][0] = 0.0
        # SGD has no preconditioner between the gradient and the momentum buffer: the decay term enters the buffer either way
        # (added to the gradient, or added to the search direction before momentum), so both settings are torch.optim.SGD
        c["use_decoupled_weight_decay"] = rng.random() < 0.5
        c["use_nesterov"] = rng.random() < 0.4 and c["momentum"] > 0
    elif target == "adagrad":
        c["grafting"] = {"type": "adagrad", "epsilon": geps}
        c["betas"][0] = 0.0
        c["use_decoupled_weight_decay"] = False
        c["momentum"] = 0.0
    elif target == "rmsprop":
        c["grafting"] = {"type": "rmsprop", "epsilon": geps, "beta2": gb2}
        c["betas"][0] = 0.0
        c["use_decoupled_weight_decay"] = False
    else:
        c["grafting"] = {"type": "adam", "epsilon": geps, "beta2": gb2}
        b1 = rng.choice([0.5, 0.9, 0.9, round(rng.uniform(0.05, 0.98), 3)])
        c["betas"][0] = b1
        c["beta3"] = rng.choice([-1.0, b1])
        c["use_bias_correction"] = True
        c["momentum"] = 0.0
        c["use_decoupled_weight_decay"] = target == "adamw"
    if c["betas"][0] == 0.0:
        c["beta3"] = -1.0
    n_steps = rng.choice([1, 2, 3, 5, 8, 12, 20, 30] if tier == "quick" else [1, 3, 8, 16, 30, 45])
    if norm_mode:
        c["momentum"] = 0.0
        c["weight_decay"] = 0.0
        c["use_nesterov"] = False
        freq = c["precondition_frequency"]
        c["start_preconditioning_step"] = rng.choice([-1, freq, freq + 1, freq + 2])
        n_steps = max(n_steps, freq + 3)
    else:
        c["precondition_frequency"] = rng.choice([1, 2, 5])
        c["start_preconditioning_step"] = max(n_steps + rng.choice([1, 2, 50]), c["precondition_frequency"])
    # bfloat16 is not used for this twin: torch.optim and Shampoo round at different places (fused alpha vs separate
    # multiply), and with momentum the two bfloat16 states drift apart by tens of percent within a few steps
    dtype = rng.choice(["float64", "float64", "float64", "float32"])
    n_params = rng.choice([1, 2, 3, 4])
    params = gen.gen_params(rng, n_params, dtype)
    n_groups = min(n_params, rng.choice([1, 1, 2]))
    idx = list(range(n_params))
    cut = sorted(rng.sample(range(1, n_params), n_groups - 1)) if n_groups > 1 else []
    parts = [idx[a:b] for a, b in zip([0] + cut, cut + [n_params])]
    groups = []
    for gi, part in enumerate(parts):
        ov = {}
        if gi > 0:
            ov["lr"] = gen.f32r(rng, 1e-3, 0.5)
            if not norm_mode:
                ov["weight_decay"] = rng.choice([0.0, 1e-2, 0.1])
            if target in ("sgd", "rmsprop") and c["momentum"] > 0 and not norm_mode:
                ov["momentum"] = rng.choice([0.5, 0.9])
            ov["max_preconditioner_dim"] = rng.choice(gen.MAX_DIMS)
        groups.append({"params": part, "overrides": ov})
    style = gen.gen_presence_style(rng, n_params)
    events = []
    prev = None
    prev_g = [None] * n_params
    for s in range(n_steps):
        if events and not norm_mode and rng.random() < 0.08:
            gi = rng.randrange(len(groups))
            key = rng.choice(["lr", "weight_decay"])
            val = gen.f32r(rng, 1e-3, 0.5) if key == "lr" else rng.choice([0.0, 1e-2, 0.05])
            events.append({"op": "set_hparam", "group": gi, "key": key, "value": val})
        mask = gen.gen_mask(rng, style, n_params, s, prev)
        if target in ("adam", "adamw"):
            for part in parts:
                on = mask[part[0]]
                for pi in part:
                    mask[pi] = on
        g = []
        for i in range(n_params):
            if mask[i]:
                gr = gen.gen_grad(rng, prev_g[i])
                gr[2] = rng.choice([1.0, 1.0, 0.1, 10.0])
                prev_g[i] = gr
                g.append(gr)
            else:
                g.append(None)
        events.append({"op": "step", "g": g})
        prev = mask
    return {
        "schema": 1,
        "property": ID,
        "engine": "single",
        "config": c,
        "groups": groups,
        "params": params,
        "world": None,
        "events": events,
        "target": target,
        "norm_mode": norm_mode,
    }


def execute(trace: dict) -> Outcome:
    common.quiet_logs()
    ref = engine.RefOracle(check_roots=False)
    oracles = [engine.TorchOptimTwin(trace["target"]), ref, engine.NormTransferOracle(ref)]
    run = engine.SingleRun(trace, oracles, ID)
    v = run.run()
    run.probes[f"target_{trace['target']}"] += 1
    if v is not None and v.tag in ("param_mismatch", "momentum_mismatch", "filtered_grad_mismatch", "graft_accumulator_mismatch", "factor_mismatch"):
        pass  # reference-model tags are reported as they are (they localise the defect)
    return Outcome(
        violation=v,
        probes=run.probes,
        nontrivial=(run.probes.get("torch_optim_compare", 0) + run.probes.get("norm_transfer_checked", 0)) > 0,
        abstract=[(trace["target"], trace["norm_mode"], a) for a in common.abstract_states(run)],
        steps=run.steps_done,
        digest=run.final_digest,
    )


def sample_view(trace: dict) -> dict:
    from .c01 import sample_view as sv

    d = sv(trace)
    d["target"] = trace["target"]
    d["norm_mode"] = trace["norm_mode"]
    return d


def valid_trace(t: dict) -> bool:
    """Preconditions of the equivalence (generator constraints): the minimiser must not shrink a trace out of them."""
    c, target = t["config"], t.get("target")
    g = c.get("grafting")
    if g is None or target is None:
        return False
    if {"sgd": "sgd", "adagrad": "adagrad", "rmsprop": "rmsprop", "adam": "adam", "adamw": "adam"}[target] != g["type"]:
        return False
    if c["dampening"] != 0.0:
        return False
    cfgs = [c] + [{**c, **gr.get("overrides", {})} for gr in t["groups"]]
    for cc in cfgs:
        if target in ("sgd", "adagrad", "rmsprop"):
            if cc["betas"][0] != 0.0 or (cc["use_decoupled_weight_decay"] and target != "sgd"):
                return False
            if target == "adagrad" and cc["momentum"] != 0.0:
                return False
            if target != "sgd" and cc["use_nesterov"]:
                return False
            if target == "sgd" and cc["use_nesterov"] and cc["momentum"] == 0.0:
                return False
        else:
            if cc["betas"][0] == 0.0 or cc["beta3"] not in (-1.0, cc["betas"][0]) or not cc["use_bias_correction"] or cc["momentum"] != 0.0:
                return False
            if cc["use_decoupled_weight_decay"] != (target == "adamw"):
                return False
    if t.get("norm_mode") and (c["momentum"] != 0.0 or c["weight_decay"] != 0.0):
        return False
    if any(p["dtype"] == "bfloat16" for p in t["params"]):
        return False
    return True

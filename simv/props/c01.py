"""C01 - every step follows the documented Shampoo update rule (DESIGN section 4, C01)."""

from __future__ import annotations

import random

from .. import engine, gen
from ..runner import Outcome
from . import common

ID = "C01"
ENGINE = "single-node-history"
LEVEL = "exploration"
DESIGN_REF = "DESIGN.md section 4 (C01), 3.1, 3.5"
TECHNIQUE = "deterministic simulation: seeded event histories (gradient presence, scheduler writes) against the real optimizer, per-step refinement vs float64 reference model"
LEVEL_TEXT = (
    "Seeded search over configurations x block layouts x event histories; every step of every run is checked block by "
    "block (parameters and all checkpointable state) against an independent float64 model advanced from the actual "
    "pre-state, so errors never accumulate and cross-wiring is pinned. Sampling, not proof: a clean batch is evidence."
)
LEVEL_NOTE = (
    "Trusted: torch CPU kernels, the reference model (written from the README/docstrings), the tolerance policy of "
    "DESIGN 3.5. Single rank, so there is no schedule dimension; fault dimension is absent gradients and hyper-parameter writes."
)
BUDGET = {"quick": 50.0, "thorough": 600.0}
RULE = (
    "seeded generation of (configuration x parameter set x param groups x event history of steps, scheduler writes and in-place "
    "parameter rescalings by the user); every run drives the real "
    "optimizer through the history and checks, after every step and for every block, parameters and every state tensor "
    "against the float64 reference model R advanced from the optimizer's actual pre-state. A run is non-trivial when at "
    "least one block step was checked; distinct = distinct (group configuration feature vector, set of (phase, presence "
    "class) visited) tuples"
)
DISTINCT_MEASURE = "distinct (config feature vector, phases x presence classes visited) per group"
ASSUMPTIONS = [
    "single rank: no scheduler nondeterminism; the simulator reduces to its history half (DESIGN section 1, honest note)",
    "R takes the stored inverse roots as they are when computing the direction; roots are compared separately against a "
    "float64 spectral oracle within a conditioning-aware bound and skipped (counted) when the bound exceeds 1e-2",
    "comparisons are relative to the magnitude of the operands of each recurrence (running-error bound), never to a cancelled result",
    "bias-correction scalars and the root exponent are carried in single precision by the implementation; their effect is allowed for",
    "runs whose amortized computation fails for reasons the inputs explain (non-converging iterative solver) end without a verdict",
    "CPU only, torch 2.5.1; bfloat16 is never the preconditioner dtype",
]
COMPONENTS = common.COMPONENTS_SINGLE
REQUIRED_PROBES = {
    "quick": ["block_steps_checked", "refresh_step", "warmup_step", "root_checked", "presence_changed"],
    "thorough": [
        "block_steps_checked",
        "refresh_step",
        "warmup_step",
        "switch_step",
        "root_checked",
        "presence_changed",
        "refresh_with_mask_change_since_last",
        "order3plus_block",
        "block_without_factor",
        "all_absent_group_step",
        "hparam_write",
        "multi_group_run",
        "group_twin_compare",
    ],
}


def generate(rng: random.Random, tier: str) -> dict:
    return gen.gen_single_trace(rng, ID, tier, kind="shampoo")


def execute(trace: dict) -> Outcome:
    common.quiet_logs()
    oracles = [engine.FrozenMonitor(), engine.RefOracle()]
    if len(trace["groups"]) > 1:
        oracles.append(engine.GroupIndependenceTwin())
    run = engine.SingleRun(trace, oracles, ID)
    v = run.run()
    run.probes["hparam_write"] += sum(1 for e in trace["events"] if e["op"] == "set_hparam")
    run.probes["multi_group_run"] += 1 if len(trace["groups"]) > 1 else 0
    return Outcome(
        violation=v,
        probes=run.probes,
        nontrivial=run.probes.get("block_steps_checked", 0) > 0,
        abstract=common.abstract_states(run),
        steps=run.steps_done,
        digest=run.final_digest,
    )


def sample_view(trace: dict) -> dict:
    return {
        "config": trace["config"],
        "groups": trace["groups"],
        "params": [(p["shape"], p["dtype"]) for p in trace["params"]],
        "events": [
            (["step", [None if g is None else g[1] for g in e["g"]]] if e["op"] == "step" else [e["op"]] + [e[k] for k in ("group", "key", "value", "param", "scale") if k in e])
            for e in trace["events"][:12]
        ],
        "n_events": len(trace["events"]),
    }

"""C05 - blocks tile each parameter exactly and blocking does not change the math (DESIGN section 4, C05)."""

from __future__ import annotations

import random
from collections import Counter

from .. import engine, gen
from ..runner import Outcome
from . import common

ID = "C05"
ENGINE = "single-node-history"
LEVEL = "exploration"
DESIGN_REF = "DESIGN.md section 4 (C05), 3.2"
TECHNIQUE = "deterministic simulation: construction-time aliasing/tiling invariants in every generated world + lock-step pre-split twin (observed blocks as separate parameters) over seeded event histories"
LEVEL_TEXT = (
    "For every generated parameter set the blocks are checked to be views of the parameter's storage that partition its "
    "elements exactly once in row-major order, respect max_preconditioner_dim, and derive from a legal fusion of adjacent "
    "non-unit dimensions (merged shape recovered from strides); gradient blocks must cover the same index sets. A twin "
    "optimizer over the observed blocks as independent parameters is advanced by the same history and compared after every step."
)
LEVEL_NOTE = (
    "The tiling clauses are pure functions of the shape: they are evaluated on the shapes the history generator produces, "
    "there is no separate input enumerator (that would be a different technique). Twin expected bitwise; reported beyond rtol 1e-9/1e-4/3e-2."
)
BUDGET = {"quick": 45.0, "thorough": 600.0}
RULE = (
    "seeded (configuration x shapes of order 0..4 incl. size-1 dims x max_preconditioner_dim x merge on/off x groups x history; "
    "15% with a parameter in a permuted dense memory layout, 30% with equal-shaped parameters whose gradients alternate); "
    "non-trivial = at least one multi-block or merged parameter tiled and one twin comparison; distinct = distinct (shape, max dim, merge) "
    "triples are folded into the configuration feature vector + phases"
)
ASSUMPTIONS = [
    "merge legality: any fusion of adjacent non-unit dimensions whose fused runs stay within the limit is accepted (greedy order is not demanded)",
    "twin B uses use_merge_dims=False over A's observed blocks, so B neither splits nor re-merges them",
]
COMPONENTS = common.COMPONENTS_SINGLE
REQUIRED_PROBES = {
    "quick": ["tiling_checked", "merge_checked", "multi_block_param", "presplit_compare", "grad_block_checked"],
    "thorough": ["tiling_checked", "merge_checked", "multi_block_param", "presplit_compare", "grad_block_checked", "presence_changed", "order3plus_shape", "size1_dim_shape"],
}


def generate(rng: random.Random, tier: str) -> dict:
    kind = rng.choice(["shampoo", "shampoo", "shampoo", "soap"])
    t = gen.gen_single_trace(rng, ID, tier, kind=kind, simple_solver=True)
    # blocking-heavy: small limits are over-represented
    if rng.random() < 0.6:
        t["config"]["max_preconditioner_dim"] = rng.choice([1, 2, 2, 3, 3, 4, 5])
    if t["config"]["preconditioner"]["kind"] == "shampoo":
        t["config"]["preconditioner"]["solver"]["enhance_stability"] = False
    if len(t["params"]) >= 2 and rng.random() < 0.3:
        # equal-shaped parameters whose gradients come and go in turns: a gradient block paired with another parameter's
        # block cannot hide behind a shape error or a change in the number of active blocks
        j = rng.randrange(len(t["params"]))
        for i in range(len(t["params"])):
            if i != j and rng.random() < 0.7:
                t["params"][i]["shape"] = list(t["params"][j]["shape"])
        style = gen.gen_presence_style(rng, len(t["params"]))
        style["style"] = rng.choice(["flip", "adversarial", "adversarial"])
        n_events = len([e for e in t["events"] if e["op"] == "step"]) or 2
        t["events"] = gen.gen_history(rng, t["params"], t["groups"], t["config"], max(3, n_events), style=style)
    if len(t["events"]) > 12 and tier == "quick":
        t["events"] = t["events"][:12]
    if rng.random() < 0.15:
        # a parameter kept in another (dense) memory layout, e.g. a channels_last convolution weight or a transposed matrix
        cands = [i for i, p in enumerate(t["params"]) if len(p["shape"]) >= 2]
        if cands:
            i = rng.choice(cands)
            n = len(t["params"][i]["shape"])
            perm = list(range(n))
            while perm == list(range(n)):
                rng.shuffle(perm)
            t["params"][i]["perm"] = [0, 2, 3, 1] if (n == 4 and rng.random() < 0.5) else perm
    return t


def execute(trace: dict) -> Outcome:
    common.quiet_logs()
    oracles = [engine.BlockingOracle(), engine.PresplitTwin()]
    permuted = any(p.get("perm") for p in trace["params"])
    try:
        run = engine.SingleRun(trace, oracles, ID)
    except RuntimeError as e:
        if permuted and "view" in str(e):
            # merging the dimensions of a parameter in another memory layout is not expressible as a view: the constructor
            # refuses (loudly) instead of blocking a copy - nothing to check
            return Outcome(violation=None, probes=Counter({"noncontiguous_param_rejected": 1}), nontrivial=False, abstract=[], steps=0)
        raise
    v = run.run()
    masks = [[g is not None for g in ev["g"]] for ev in trace["events"] if ev["op"] == "step"][: run.steps_done]
    run.probes["presence_changed"] += sum(1 for a, b in zip(masks, masks[1:]) if a != b)
    run.probes["order3plus_shape"] += sum(1 for p in trace["params"] if len(p["shape"]) >= 3)
    run.probes["size1_dim_shape"] += sum(1 for p in trace["params"] if 1 in p["shape"])
    feats = [
        (tuple(p["shape"]), run.hps[run.param_group_of[i]].max_dim, run.hps[run.param_group_of[i]].merge) for i, p in enumerate(trace["params"])
    ]
    return Outcome(
        violation=v,
        probes=run.probes,
        nontrivial=run.probes.get("presplit_compare", 0) > 0 and run.probes.get("tiling_checked", 0) > 0,
        abstract=feats + common.abstract_states(run),
        steps=run.steps_done,
        digest=run.final_digest,
    )


from .c01 import sample_view  # noqa: E402,F401

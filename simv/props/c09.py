"""C09 - checkpoint save/restore at any step resumes the exact trajectory (DESIGN section 4, C09)."""

from __future__ import annotations

import copy
import io
import random
from collections import Counter
from typing import Any

import torch

from .. import adapter, gen, shardworld, spec, world, worldrun
from ..engine import Violation, config_features
from ..runner import Outcome
from . import common

ID = "C09"
ENGINE = "crash-restart"
LEVEL = "fault_enumeration"
DESIGN_REF = "DESIGN.md section 4 (C09), 2.3"
TECHNIQUE = (
    "deterministic crash/restart simulation: for each sampled history, a crash at every step boundary with only the "
    "durable state (distributed state dict + parameters) surviving, fresh optimizer, restore, continue and compare bit-for-bit "
    "with the uninterrupted run; storage faults on the saved dict (lost leaf, lost subtree, unknown parameter, group mismatch); "
    "serial layout and, inside the multi-rank world, DDP, FSDP, HSDP, fully_shard and hybrid-shard layouts"
)
LEVEL_TEXT = (
    "Crash points are enumerated exhaustively per sampled history in the thorough tier (quick: the structurally interesting "
    "ones plus two random); histories, configurations and layouts are sampled. Every continuation is compared with the "
    "uninterrupted run bit-for-bit in parameters and in the complete optimizer state after every remaining step. Storage "
    "faults must make load_distributed_state_dict raise. After every restore the optimizer's param_groups are compared with "
    "those of the stopped optimizer."
)
LEVEL_NOTE = (
    "The simulated disk deep-clones tensors at save time (the state dict returns live tensors); a share of runs round-trips "
    "through torch.save/torch.load on BytesIO. Volatile structures are discarded by discarding the optimizer object."
)
BUDGET = {"quick": 55.0, "thorough": 600.0}
RULE = (
    "seeded (configuration: Shampoo/SOAP, grafting types, momentum, filtering, 1-3 groups, blocked parameters, blocks without "
    "Kronecker factor with and without other state x history of <= 16 (thorough 30) events with absent gradients, scheduler writes "
    "(lr, weight decay, momentum, the preconditioning schedule itself) x layout serial|ddp|fsdp|hsdp|fully_shard|hybrid_shard); "
    "evaluations = histories; each history contributes its crash points (counted in probes.crash_points). Non-trivial = at "
    "least one crash point with >= 1 remaining step compared; distinct = distinct (config features, layout, crash-point phase set)"
)
DISTINCT_MEASURE = "distinct (config features, layout, set of phases at which a crash was injected)"
ASSUMPTIONS = [
    "the checkpoint is the distributed state dict plus the parameter values (parameters are checkpointed by the caller)",
    "the fresh optimizer is constructed with the original constructor arguments; scheduler-written lr/decay/momentum must come back from param_groups",
    "any exception type from load_distributed_state_dict counts as 'raises'",
    "distributed layouts: every rank saves and restores its own local state (DTensor local data re-wrapped onto the fresh optimizer's meshes); "
    "the restarted world has the same size, mesh and sharding as the saved one (no re-sharding)",
    "sharded layouts use histories in which every block owner has a gradient among its blocks (finding F3 is C06-C08's)",
]
COMPONENTS = {
    "real": [
        "DistributedShampoo.distributed_state_dict / load_distributed_state_dict",
        "shampoo_checkpoint_utils (flatten, unflatten, extract, update)",
        "OptimizerModule.state_dict / load_state_dict",
        "preconditioner lists and (distributed layouts) DDP / FSDP / HSDP / FullyShard / HybridShard distributors + DTensor state",
    ],
    "stub": ["checkpoint storage: in-memory disk holding deep clones (optionally torch.save bytes)", "model/autograd", "distributed layouts: simulated world (c10d backend, scheduler)"],
}
REQUIRED_PROBES = {
    "quick": ["crash_points", "resume_steps_compared", "ckpt_fault_injected", "restore_at_refresh_step"],
    "thorough": [
        "crash_points",
        "resume_steps_compared",
        "ckpt_fault_injected",
        "restore_at_refresh_step",
        "restore_in_warmup",
        "double_restart",
        "torch_save_roundtrip",
        "hparam_restored_from_param_groups",
        "block_without_tensor_leaf_run",
        "ddp_layout_run",
        "fsdp_layout_run",
        "hsdp_layout_run",
        "fully_shard_layout_run",
        "hybrid_shard_layout_run",
        "soap_run",
        "frozen_param_run",
        "ckpt_regrouped",
        "factorless_block_with_state_run",
        "schedule_rewritten_run",
        "param_groups_compared",
    ],
}


def names(n: int) -> list[str]:
    return [f"p{i}.weight" for i in range(n)]


def clone_state_dict(sd: dict, roundtrip: bool) -> dict:
    """What reaches the simulated disk: deep clones of local tensor data and of param_groups."""

    def cl(v: Any) -> Any:
        if isinstance(v, torch.Tensor):
            return spec._local(v).detach().clone()
        return copy.deepcopy(v)

    out: dict[str, Any] = {"state": {k: {kk: cl(vv) for kk, vv in v.items()} for k, v in sd["state"].items()}}
    if "param_groups" in sd:
        out["param_groups"] = copy.deepcopy(sd["param_groups"])
    if roundtrip:
        buf = io.BytesIO()
        torch.save(out, buf)
        buf.seek(0)
        out = torch.load(buf, weights_only=False)
    return out


def local_params(params: list[torch.Tensor]) -> list[torch.Tensor]:
    return [spec._local(p.detach()).clone() for p in params]


def full_state_snapshot(opt, params: list[torch.Tensor]) -> dict:
    snap = {}
    for i, p in enumerate(params):
        if p not in opt.state:  # (optimizer.state is a defaultdict: never index it with a parameter it does not hold)
            continue
        for path, t in spec.walk_state(opt.state[p]):
            snap[(i,) + path] = spec._local(t).detach().clone()
    return snap


def rewrap_for_load(disk_sd: dict, opt, params: list[torch.Tensor], nm: list[str]) -> dict:
    """Restart: saved local data is re-wrapped onto the *fresh* optimizer's state layout (DTensor meshes)."""
    out = {"state": {}, "param_groups": copy.deepcopy(disk_sd.get("param_groups", {}))}
    has_dtensor = any(type(t).__name__ == "DTensor" for p in params if p in opt.state for _, t in spec.walk_state(opt.state[p]))
    if not has_dtensor:
        # plain tensors everywhere (serial, FSDP, fully_shard state): what was saved is what is loaded
        for pk, flat in disk_sd["state"].items():
            out["state"][pk] = {k: (v.clone() if isinstance(v, torch.Tensor) else copy.deepcopy(v)) for k, v in flat.items()}
        return out
    from distributed_shampoo.utils.shampoo_checkpoint_utils import extract_state_dict_content, flatten

    live = {nm[i]: flatten(extract_state_dict_content(opt.state[p])) for i, p in enumerate(params) if p in opt.state}
    for pk, flat in disk_sd["state"].items():
        o = {}
        for k, v in flat.items():
            lv = live.get(pk, {}).get(k)
            if isinstance(v, torch.Tensor) and lv is not None and type(lv).__name__ == "DTensor":
                from torch.distributed.tensor import DTensor

                o[k] = DTensor.from_local(v.clone(), lv.device_mesh, lv.placements, run_check=False, shape=lv.shape, stride=lv.stride())
            else:
                o[k] = v.clone() if isinstance(v, torch.Tensor) else copy.deepcopy(v)
        out["state"][pk] = o
    return out


class System:
    """One optimizer instance over its own copy of the parameters."""

    def __init__(self, trace: dict, init: list[torch.Tensor] | None, dist_config=None, groups=None) -> None:
        if groups is not None:
            trace = {**trace, "groups": groups}
        self.trace = trace
        self.params = [spec.make_param(p).requires_grad_(True) for p in trace["params"]]
        self.frozen = set(trace.get("frozen", []))
        for i in self.frozen:
            self.params[i].requires_grad_(False)  # a frozen parameter handed to the optimizer never receives a gradient
        if init is not None:
            with torch.no_grad():
                for p, q in zip(self.params, init):
                    p.copy_(q)
        self.opt = spec.build_optimizer(trace, self.params, distributed_config=dist_config, pt2=None)
        self.nm = names(len(self.params))

    def apply(self, ev: dict) -> BaseException | None:
        if ev["op"] == "set_hparam":
            self.opt.param_groups[ev["group"]][ev["key"]] = ev["value"]
            return None
        if ev["op"] == "poke":
            with torch.no_grad():
                spec._local(self.params[ev["param"]]).mul_(ev["scale"])
            return None
        for i, (p, ps, g) in enumerate(zip(self.params, self.trace["params"], ev["g"])):
            p.grad = None if (g is None or i in self.frozen) else spec.make_grad(tuple(ps["shape"]), p.dtype, g[0], g[1], g[2])
        try:
            self.opt.step()
        except world.SimAbort:
            raise
        except Exception as e:  # noqa: BLE001
            return e
        return None

    def save(self) -> dict:
        return self.opt.distributed_state_dict(key_to_param=iter(zip(self.nm, self.params)))

    def load(self, sd: dict) -> None:
        self.opt.load_distributed_state_dict(state_dict=sd, key_to_param=iter(zip(self.nm, self.params)))


class ShardSystem(System):
    """One optimizer instance of one rank of a sharded world (FSDP / HSDP / fully_shard / hybrid shard): the rank's local
    shards are built by the same rank programs the C07/C08 worlds run."""

    def __init__(self, trace: dict, init: list[torch.Tensor] | None, rank: int, sim) -> None:
        self.trace = trace
        self.prog = shardworld.PROGRAMS[trace["world"]["kind"]](trace, rank, sim)
        self.prog.setup()
        self.params, self.opt = self.prog.params, self.prog.opt
        self.frozen = set()
        if init is not None:
            # the restarted process holds the checkpointed model: blocks are views of the parameters, so writing the local
            # shards in place is what loading the model's own state dict does
            with torch.no_grad():
                for p, q in zip(self.params, init):
                    spec._local(p).copy_(q)
        self.nm = names(len(self.params))

    def apply(self, ev: dict) -> BaseException | None:
        if ev["op"] == "set_hparam":
            self.opt.param_groups[ev["group"]][ev["key"]] = ev["value"]
            return None
        if ev["op"] == "poke":
            with torch.no_grad():
                spec._local(self.params[ev["param"]]).mul_(ev["scale"])
            return None
        self.prog.set_grads(ev)
        try:
            self.opt.step()
        except world.SimAbort:
            raise
        except Exception as e:  # noqa: BLE001
            return e
        return None


def _differs(a: Any, b: Any) -> bool:
    try:
        if isinstance(a, torch.Tensor) or isinstance(b, torch.Tensor):
            return not (isinstance(a, torch.Tensor) and isinstance(b, torch.Tensor) and torch.equal(a, b))
        return bool(a != b)
    except Exception:  # noqa: BLE001
        return repr(a) != repr(b)


def phases_of(trace: dict) -> list[str]:
    """Phase label of the state after each event index (for crash-point selection and coverage)."""
    cfgs = [spec.effective_group_config(trace["config"], g.get("overrides", {})) for g in trace["groups"]]
    counters = [0] * len(cfgs)
    out = []
    prev_mask = None
    for ev in trace["events"]:
        lab = set()
        if ev["op"] == "step":
            mask = [g is not None for g in ev["g"]]
            if prev_mask is not None and mask != prev_mask:
                lab.add("after_presence_change")
            prev_mask = mask
            for gi, g in enumerate(trace["groups"]):
                if any(ev["g"][pi] is not None for pi in g["params"]):
                    counters[gi] += 1
                    t, c = counters[gi], cfgs[gi]
                    start, freq = c["start_preconditioning_step"], c["precondition_frequency"]
                    if t < start:
                        lab.add("warmup")
                    if t + 1 == start:
                        lab.add("before_switch")
                    if t == start or (t > start and t % freq == 0):
                        lab.add("at_refresh")
                    elif t > start:
                        lab.add("between")
                    if t + 1 == start or (t + 1 > start and (t + 1) % freq == 0):
                        lab.add("before_refresh")
        else:
            lab.add("after_hparam_write")
        out.append("|".join(sorted(lab)) or "idle")
    return out


def crash_points(trace: dict, rng: random.Random, tier: str) -> list[int]:
    """k = number of events applied before the crash (0..T)."""
    T = len(trace["events"])
    if tier == "thorough" or trace.get("all_crash_points"):
        return list(range(T + 1))
    ph = phases_of(trace)
    pts = {0, T}
    want = ["at_refresh", "before_switch", "after_presence_change", "warmup", "after_hparam_write", "before_refresh"]
    for w in want:
        cand = [i + 1 for i, p in enumerate(ph) if w in p]
        if cand:
            pts.add(rng.choice(cand))
    for _ in range(2):
        pts.add(rng.randrange(T + 1))
    return sorted(pts)


def make_ckpt_fault(rng: random.Random, disk_sd: dict, n_groups: int) -> tuple[dict, dict] | None:
    sd = {"state": {k: dict(v) for k, v in disk_sd["state"].items()}, "param_groups": copy.deepcopy(disk_sd.get("param_groups", {}))}
    kind = rng.choice(["key_lost", "key_lost", "key_lost", "subtree_lost", "unknown_param", "group_count", "group_key"])
    if kind == "key_lost":
        cands = [(pk, k) for pk, flat in sd["state"].items() for k, v in flat.items() if isinstance(v, torch.Tensor)]
        if not cands:
            return None
        pk, k = rng.choice(sorted(cands))
        del sd["state"][pk][k]
        return sd, {"kind": kind, "param": pk, "key": k}
    if kind == "subtree_lost":
        import json

        try:
            for flat in sd["state"].values():
                for k in flat:
                    json.loads(k)
        except Exception:  # noqa: BLE001  (another flat-key encoding: no notion of a subtree, this fault kind is skipped)
            return None

        cands = sorted({(pk, json.loads(k)[0]) for pk, flat in sd["state"].items() for k in flat if len(json.loads(k)) > 1})
        if not cands:
            return None
        pk, top = rng.choice(cands)
        depth = rng.choice([1, 2])
        prefixes = sorted({tuple(json.loads(k)[:depth]) for k in sd["state"][pk] if json.loads(k)[0] == top and len(json.loads(k)) > depth})
        if not prefixes:
            return None
        pref = list(rng.choice(prefixes))
        for k in list(sd["state"][pk]):
            if json.loads(k)[: len(pref)] == pref:
                del sd["state"][pk][k]
        return sd, {"kind": kind, "param": pk, "prefix": pref}
    if kind == "unknown_param":
        pk = sorted(sd["state"])[0]
        sd["state"]["ghost.weight"] = dict(sd["state"][pk])
        return sd, {"kind": kind}
    if kind == "group_count":
        keys = sorted(sd["param_groups"])
        if rng.random() < 0.5 and len(keys) > 1:
            del sd["param_groups"][keys[-1]]
        else:
            sd["param_groups"]["ghost.weight"] = copy.deepcopy(sd["param_groups"][keys[0]])
        return sd, {"kind": kind}
    keys = sorted(sd["param_groups"])
    k0 = keys[0]
    sd["param_groups"][k0 + "/renamed"] = sd["param_groups"].pop(k0)
    return sd, {"kind": kind}


# ---------------------------------------------------------------------------------------------------------------------
# one layout-independent crash/restart campaign over a System factory


def campaign(trace: dict, make_system, probes: Counter, yield_fn=None) -> Violation | None:
    rng = random.Random(trace.get("campaign_seed", 0))
    T = len(trace["events"])
    feats = {f"f_{k}": v for k, v in config_features(spec.effective_group_config(trace["config"], trace["groups"][0].get("overrides", {})), [p["dtype"] for p in trace["params"]]).items()}
    feats["layout"] = trace.get("layout", "serial")
    roundtrip = bool(trace.get("torch_save_roundtrip"))
    if roundtrip:
        probes["torch_save_roundtrip"] += 1
    pts = crash_points(trace, rng, trace.get("tier", "quick"))
    ph = phases_of(trace)

    # uninterrupted run, saving at every crash point
    A = make_system(None)
    disk: dict[int, tuple[dict, list[torch.Tensor]]] = {}
    hyper: dict[int, list[dict]] = {}
    record: dict[int, tuple[list[torch.Tensor], dict]] = {}
    leafless = False
    for k in range(T + 1):
        if k in pts:
            sd = A.save()
            # saved-state clauses: flat keys unique per (parameter, block, path) and complete
            for i, p in enumerate(A.params):
                if p not in A.opt.state:
                    continue  # DDP layout: this rank owns no block of the parameter
                if A.nm[i] not in sd["state"]:
                    return Violation(ID, "leaf_missing_from_checkpoint", k - 1, {**feats, "param": i, "note": "parameter with state missing from the checkpoint"})
                flat = sd["state"][A.nm[i]]
                walked = list(spec.walk_state(A.opt.state[p]))
                # every tensor reachable from optimizer.state (own walker) is in the checkpoint under the key of its own
                # path, with its current value; whether the saved tensor aliases the live one is not part of the property
                import json as _json

                flat_by_path = {}
                for fk, fv in flat.items():
                    try:
                        flat_by_path[tuple(_json.loads(fk))] = fv
                    except Exception:  # noqa: BLE001
                        flat_by_path[(fk,)] = fv
                if len(flat_by_path) != len(flat):
                    return Violation(ID, "flat_key_collision", k - 1, {**feats, "param": i})
                used: set = set()
                for path, t in walked:
                    fv = flat_by_path.get(tuple(path))
                    if fv is None:
                        # another (still unique) key encoding: every held tensor must be in the checkpoint under a key of
                        # its own - matched by value, one saved entry per held tensor
                        cand = next((fk for fk, v in flat.items() if fk not in used and isinstance(v, torch.Tensor) and spec.bit_equal(v, t)), None)
                        if cand is None:
                            return Violation(ID, "leaf_missing_from_checkpoint", k - 1, {**feats, "param": i, "path": [str(x) for x in path]})
                        used.add(cand)
                        continue
                    if not isinstance(fv, torch.Tensor):
                        return Violation(ID, "leaf_missing_from_checkpoint", k - 1, {**feats, "param": i, "path": [str(x) for x in path]})
                    if not spec.bit_equal(fv, t):
                        return Violation(ID, "flat_key_collision", k - 1, {**feats, "param": i, "path": [str(x) for x in path], "note": "value under the path's key differs from the live tensor"})
                for key in A.opt.state[p]:
                    if key != "step" and not any(True for _ in spec.walk_state(A.opt.state[p][key])):
                        leafless = True
            disk[k] = (clone_state_dict(sd, roundtrip), local_params(A.params))
            hyper[k] = [{kk: copy.deepcopy(vv) for kk, vv in g.items() if kk != "params"} for g in A.opt.param_groups]
        if k < T:
            exc = A.apply(trace["events"][k])
            if yield_fn:
                yield_fn()
            if exc is not None:
                probes["uninterrupted_run_raised"] += 1
                T = k
                pts = [x for x in pts if x <= k]
                break
            record[k] = (local_params(A.params), full_state_snapshot(A.opt, A.params))
    if leafless:
        probes["block_without_tensor_leaf_run"] += 1
    hparams_written = any(e["op"] == "set_hparam" for e in trace["events"])

    for k in pts:
        if k not in disk:
            continue
        probes["crash_points"] += 1
        label = ph[k - 1] if k > 0 else "start"
        if "at_refresh" in label:
            probes["restore_at_refresh_step"] += 1
        if "warmup" in label or k == 0:
            probes["restore_in_warmup"] += 1
        sd_disk, params_disk = disk[k]
        ctx = {**feats, "crash_point": k, "phase_at_crash": label, "T": T}
        # ---- storage faults (separate configuration): load must raise ------------------------------------------------------
        if trace.get("ckpt_faults") and trace.get("layout", "serial") == "serial" and len(trace["groups"]) > 1 and rng.random() < 0.25:
            # parameter groups that do not match: a non-first parameter moved to another group of the fresh optimizer
            donors = [gi for gi, g in enumerate(trace["groups"]) if len(g["params"]) > 1]
            if donors:
                gi = donors[rng.randrange(len(donors))]
                gj = (gi + 1) % len(trace["groups"])
                groups2 = copy.deepcopy(trace["groups"])
                moved = max(groups2[gi]["params"])
                groups2[gi]["params"].remove(moved)
                groups2[gj]["params"] = sorted(groups2[gj]["params"] + [moved])
                Bm = make_system(params_disk, groups2)
                probes["ckpt_fault_injected"] += 1
                probes["ckpt_regrouped"] += 1
                try:
                    Bm.load(rewrap_for_load(sd_disk, Bm.opt, Bm.params, Bm.nm))
                    raised = False
                except world.SimAbort:
                    raise
                except Exception:  # noqa: BLE001
                    raised = True
                if not raised:
                    return Violation(ID, "silent_resume_group_mismatch", k - 1, {**ctx, "fault": {"kind": "regrouped", "moved_param": moved, "from": gi, "to": gj}})
                continue
        if trace.get("ckpt_faults") and rng.random() < 0.5:
            B = make_system(params_disk)
            # (content choices use their own stream: ranks hold different state dicts and must not desynchronise the
            # control-flow stream that decides how many systems every rank constructs)
            f = make_ckpt_fault(random.Random(f"{trace.get('campaign_seed', 0)}-{k}"), sd_disk, len(trace["groups"]))
            if f is not None:
                bad, desc = f
                probes["ckpt_fault_injected"] += 1
                probes[f"ckpt_{desc['kind']}"] += 1
                try:
                    B.load(rewrap_for_load(bad, B.opt, B.params, B.nm))
                    raised = False
                except world.SimAbort:
                    raise
                except Exception:  # noqa: BLE001
                    raised = True
                if not raised:
                    tag = {
                        "key_lost": "silent_resume_after_key_loss",
                        "subtree_lost": "silent_resume_after_key_loss",
                        "unknown_param": "silent_resume_unknown_param",
                        "group_count": "silent_resume_group_mismatch",
                        "group_key": "silent_resume_group_mismatch",
                    }[desc["kind"]]
                    import json

                    sole = None
                    if desc["kind"] == "key_lost":
                        try:
                            path = json.loads(desc["key"])
                            sibs = [kk for kk in sd_disk["state"][desc["param"]] if json.loads(kk)[:-1] == path[:-1]]
                            sole = len(sibs) == 1
                            desc = {**desc, "path": [str(x) for x in path if not str(x).startswith("block_")]}
                        except Exception:  # noqa: BLE001
                            pass
                    return Violation(ID, tag, k - 1, {**ctx, "fault": desc, "lost_is_sole_child": sole})
            continue
        # ---- restart ----------------------------------------------------------------------------------------------------------
        B = make_system(params_disk)
        try:
            B.load(rewrap_for_load(sd_disk, B.opt, B.params, B.nm))
        except world.SimAbort:
            raise
        except Exception as e:  # noqa: BLE001
            return Violation(ID, "own_checkpoint_rejected", k - 1, {**ctx, "exc_type": type(e).__name__, "exc": str(e)[:200], "leafless_block": leafless})
        if hparams_written:
            probes["hparam_restored_from_param_groups"] += 1
        # the restored optimizer's param_groups hold exactly the hyper-parameters the stopped optimizer had (scheduler writes
        # included): the continuation depends on every one of them
        for gi, (ga, gb) in enumerate(zip(hyper[k], B.opt.param_groups)):
            for kk, va in ga.items():
                if kk not in gb or _differs(va, gb[kk]):
                    return Violation(ID, "param_groups_not_restored", k - 1, {**ctx, "group": gi, "key": kk, "saved": repr(va)[:80], "restored": repr(gb.get(kk))[:80]})
        probes["param_groups_compared"] += 1
        # restore-then-save equals the loaded snapshot
        sd2 = clone_state_dict(B.save(), False)
        for pk, flat in sd_disk["state"].items():
            for key, v in flat.items():
                v2 = sd2["state"].get(pk, {}).get(key)
                if isinstance(v, torch.Tensor) and (v2 is None or not spec.bit_equal(v, v2)):
                    return Violation(ID, "restore_then_save_differs", k - 1, {**ctx, "param": pk, "key": key})
        second = rng.choice(range(k + 1, T)) if (T - k >= 2 and rng.random() < 0.3) else None
        for j in range(k, T):
            if second is not None and j == second:
                probes["double_restart"] += 1
                sdj = clone_state_dict(B.save(), roundtrip)
                pj = local_params(B.params)
                B = make_system(pj)
                try:
                    B.load(rewrap_for_load(sdj, B.opt, B.params, B.nm))
                except world.SimAbort:
                    raise
                except Exception as e:  # noqa: BLE001
                    return Violation(ID, "own_checkpoint_rejected", j - 1, {**ctx, "second_restart": True, "exc_type": type(e).__name__, "exc": str(e)[:200]})
            exc = B.apply(trace["events"][j])
            if yield_fn:
                yield_fn()
            if exc is not None:
                return Violation(ID, "resume_param_diverges", j, {**ctx, "note": "continuation raised", "exc": repr(exc)[:200]})
            if trace["events"][j]["op"] != "step":
                continue
            rp, rs = record[j]
            for i, (a, e) in enumerate(zip(B.params, rp)):
                if not spec.bit_equal(a.detach(), e):
                    return Violation(ID, "resume_param_diverges", j, {**ctx, "param": i, "steps_after_restore": j - k + 1})
            snap = full_state_snapshot(B.opt, B.params)
            if set(snap) != set(rs):
                return Violation(ID, "resume_state_diverges:keys", j, ctx)
            for path, t in snap.items():
                if not spec.bit_equal(t, rs[path]):
                    return Violation(
                        ID,
                        "resume_state_diverges:" + "/".join(str(x) for x in path[1:] if not str(x).startswith("block_") and not str(x).startswith("rank_")),
                        j,
                        {**ctx, "param": path[0], "path": [str(x) for x in path[1:]], "steps_after_restore": j - k + 1},
                    )
            probes["resume_steps_compared"] += 1
    return None


# ---------------------------------------------------------------------------------------------------------------------


def generate_sharded(rng: random.Random, tier: str) -> dict:
    """A C07 / C08 world (flat FSDP / HSDP shards, dim-0 sharded DTensors) whose history never starves an owner, run as
    a crash/restart campaign on every rank."""
    from . import c07, c08

    trace = (c07 if rng.random() < 0.5 else c08).generate(rng, "quick", allow_starve=False)
    trace.pop("check_schedule_invariance", None)
    trace.update(property=ID, engine="crash", layout=trace["world"]["kind"])
    trace["world"]["stickiness"] = rng.choice([0.0, 0.5, 0.9])
    trace["world"]["weights"] = [1.0] * trace["world"]["size"]
    if rng.random() < 0.3 and len(trace["events"]) > 1:
        at = rng.randrange(1, len(trace["events"]))
        trace["events"].insert(at, {"op": "set_hparam", "group": rng.randrange(len(trace["groups"])), "key": "lr", "value": gen.f32r(rng, 1e-3, 0.5)})
    trace["tier"] = tier
    trace["campaign_seed"] = rng.randrange(1 << 30)
    trace["ckpt_faults"] = rng.random() < 0.4
    trace["torch_save_roundtrip"] = rng.random() < 0.2
    return trace


def generate(rng: random.Random, tier: str) -> dict:
    if rng.random() < 0.15:
        return generate_sharded(rng, tier)
    kind = rng.choice(["shampoo", "shampoo", "soap"])
    config = gen.gen_config(rng, kind=kind, simple_solver=True)
    if kind == "shampoo":
        config["preconditioner"]["solver"]["enhance_stability"] = False
    config["epsilon"] = rng.choice([1e-8, 1e-6, 1e-4, 1e-2, 1e-1])
    dtype = rng.choice(["float32", "float32", "float64", "bfloat16"])
    if dtype == "bfloat16":
        config["preconditioner_dtype"] = "float32"
    layout = "ddp" if rng.random() < 0.25 else "serial"
    if rng.random() < 0.2 and layout == "serial":
        # blocks that carry no tensor leaf at all: 0-d parameter, merge off, no filtering/momentum/grafting
        config["use_merge_dims"] = False
        config["betas"][0] = 0.0
        config["beta3"] = -1.0
        config["momentum"] = 0.0
        config["grafting"] = None
    n_params = rng.choice([1, 2, 2, 3, 4])
    params = gen.gen_params(rng, n_params, dtype, max_numel=160)
    factorless = False
    if config["grafting"] is None and config["betas"][0] == 0.0 and rng.random() < 0.7:
        params[rng.randrange(n_params)]["shape"] = []
    elif layout == "serial" and rng.random() < 0.12:
        # a block without any Kronecker factor that still owns state (filtered gradient, momentum, grafting accumulator):
        # a 0-D parameter with merging off, or a 1-D parameter whose only dimension is ignored
        if rng.random() < 0.5 or kind != "shampoo":
            config["use_merge_dims"] = False
            params[rng.randrange(n_params)]["shape"] = []
        else:
            config["preconditioner"]["ignored_dims"] = [0]
            config["inv_root_override"] = 0
            params[rng.randrange(n_params)]["shape"] = [rng.choice([2, 3, 5])]
        factorless = True
    trace: dict[str, Any] = {"schema": 1, "property": ID, "engine": "crash", "config": config, "params": params, "world": None, "layout": layout}
    if layout == "ddp":
        from .c06 import divisors, gen_world_params

        n = rng.choice([2, 2, 3, 4])
        g = rng.choice(divisors(n) + [-1])
        gsize = n if g == -1 else g
        w = {
            "kind": "ddp",
            "size": n,
            "num_trainers_per_group": g,
            "communicate_params": rng.random() < 0.4,
            "comm_dtype": rng.choice(["DEFAULT", "FP32", "BF16"]),
            "stickiness": rng.choice([0.0, 0.5, 0.9]),
            "weights": [1.0] * n,
        }
        params, groups = gen_world_params(rng, config, rng.choice([1, 1, 2]), gsize, dtype)
        trace.update(params=params, groups=groups, world=w, schedule_seed=rng.randrange(1 << 30), schedule=None)
        T = rng.choice([2, 3, 4, 6, 8])
        from .c06 import gen_world_history

        trace["events"] = gen_world_history(rng, trace, gsize, worldrun.COMM[w["comm_dtype"]].itemsize, T, starve=False)
    else:
        trace["groups"] = gen.gen_groups(rng, n_params, config)
        T = rng.choice([1, 2, 3, 4, 6, 8, 10, 12, 16] + ([24, 30] if tier == "thorough" else []))
        trace["events"] = gen.gen_history(rng, params, trace["groups"], config, T, hparam_rate=0.12)
        if rng.random() < 0.25 and T >= 2:
            # the preconditioning schedule itself is changed in param_groups during the run (a longer or shorter refresh
            # period, also one that exceeds start_preconditioning_step - a combination only a later write can produce)
            at = rng.randrange(1, len(trace["events"]) + 1)
            gi_ = rng.randrange(len(trace["groups"]))
            eff_ = spec.effective_group_config(config, trace["groups"][gi_].get("overrides", {}))
            start_ = eff_["start_preconditioning_step"] if eff_["start_preconditioning_step"] != -1 else eff_["precondition_frequency"]
            val = rng.choice([1, 2, 3, start_ + 1, start_ + 3, eff_["precondition_frequency"] + 1])
            trace["events"].insert(at, {"op": "set_hparam", "group": gi_, "key": "precondition_frequency", "value": int(val)})
    for ev in trace["events"]:
        if ev["op"] == "step":
            for g in ev["g"]:
                if g is not None:
                    g[2] = rng.choice([1.0, 1.0, 0.1, 10.0])
    if layout == "serial" and rng.random() < 0.15:
        # a frozen (requires_grad=False) parameter, half of the time the first parameter of its group (which holds the
        # group's step counter)
        g_ = rng.choice(trace["groups"])
        if len(g_["params"]) > 1 or len(trace["groups"]) > 1 or True:
            fz = g_["params"][0] if rng.random() < 0.5 else rng.choice(g_["params"])
            if any(pi != fz for gg in trace["groups"] for pi in gg["params"]):
                trace["frozen"] = [fz]
                for ev in trace["events"]:
                    if ev["op"] == "step":
                        ev["g"][fz] = None
    trace["tier"] = tier
    trace["campaign_seed"] = rng.randrange(1 << 30)
    trace["ckpt_faults"] = rng.random() < 0.4
    trace["torch_save_roundtrip"] = rng.random() < 0.2
    trace["factorless_with_state"] = factorless
    return trace


def execute(trace: dict) -> Outcome:
    common.quiet_logs()
    probes: Counter = Counter()
    sched = 0
    if trace.get("layout", "serial") != "serial":
        probes[f"{trace['layout']}_layout_run"] += 1
        w = trace["world"]
        results: list[Violation | None] = [None] * w["size"]
        rank_probes = [Counter() for _ in range(w["size"])]
        outs = [worldrun.RankOut() for _ in range(w["size"])]

        def rank_main(rank: int, sim: world.Sim) -> None:
            def mk(init, groups=None):
                if w["kind"] != "ddp":
                    s_ = ShardSystem(trace, init, rank, sim)
                    if init is None and w["kind"] in ("hsdp", "hybrid_shard"):
                        outs[rank].groups_info = shardworld.collect_group_info_generic(s_.prog)
                    return s_
                s_ = System(trace, init, worldrun._dist_config(trace, rank, sim, []), groups)
                if init is None:
                    outs[rank].groups_info = worldrun.collect_group_info(s_.opt, trace, s_.params)
                return s_

            results[rank] = campaign(trace, mk, rank_probes[rank], yield_fn=sim.yield_)

        world.install()
        sim = world.Sim(w["size"], trace["schedule_seed"], trace.get("schedule"), w.get("stickiness", 0.0), w.get("weights"))
        sim.run(rank_main)
        sched = len(sim.choices)
        probes.update(rank_probes[0])
        v = next((r for r in results if r is not None), None)
        starving = [ei for ei, ev in enumerate(trace["events"]) if ev["op"] == "step" and worldrun.starved_ranks(trace, outs, ev)]
        if starving:
            # the history leaves a block owner without any gradient under the assignment the optimizer actually made: that is
            # finding F3 (C06-C08) and outside this property's stated assumptions - no verdict for the run (the generator
            # avoids such histories for the assignment rule of the pinned tree, so this stays at zero there)
            probes["history_starves_under_actual_assignment"] += 1
            v = None
        elif v is None and sim.outcome != "ok":
            r = next((r for r in sim.ranks if r.exc is not None), None)
            ctx = {"layout": trace["layout"], "outcome": sim.outcome}
            if r is not None:
                ctx.update(exc_type=type(r.exc).__name__, exc=str(r.exc)[:300], tb=r.exc_tb[-600:])
            if sim.outcome == "deadlock":
                ctx["blocked"] = sim.deadlock_info
            v = Violation(ID, "deadlock" if sim.outcome == "deadlock" else "unexpected_exception", -1, ctx)
    else:
        v = campaign(trace, lambda init, groups=None: System(trace, init, None, groups), probes)
    if trace["config"]["preconditioner"]["kind"] == "soap":
        probes["soap_run"] += 1
    if trace.get("frozen"):
        probes["frozen_param_run"] += 1
    if trace.get("factorless_with_state"):
        probes["factorless_block_with_state_run"] += 1
    if any(e["op"] == "set_hparam" and e["key"] == "precondition_frequency" for e in trace["events"]):
        probes["schedule_rewritten_run"] += 1
    ph = set(phases_of(trace))
    feats = config_features(spec.effective_group_config(trace["config"], trace["groups"][0].get("overrides", {})), [p["dtype"] for p in trace["params"]])
    return Outcome(
        violation=v,
        probes=probes,
        faults=Counter(
            {
                "crash_restart": probes.get("crash_points", 0),
                "double_restart": probes.get("double_restart", 0),
                "ckpt_key_lost": probes.get("ckpt_key_lost", 0),
                "ckpt_subtree_lost": probes.get("ckpt_subtree_lost", 0),
                "ckpt_unknown_param": probes.get("ckpt_unknown_param", 0),
                "ckpt_group_mismatch": probes.get("ckpt_group_count", 0) + probes.get("ckpt_group_key", 0),
                "hparam_write": sum(1 for e in trace["events"] if e["op"] == "set_hparam"),
                "absent_grad_steps": sum(1 for e in trace["events"] if e["op"] == "step" and any(g is None for g in e["g"])),
            }
        ),
        nontrivial=probes.get("resume_steps_compared", 0) > 0,
        abstract=[(tuple(sorted((k, str(x)) for k, x in feats.items())), trace.get("layout"), tuple(sorted(ph)))],
        steps=probes.get("resume_steps_compared", 0),
        sched_events=sched,
    )


def sample_view(trace: dict) -> dict:
    from .c01 import sample_view as sv

    d = sv(trace)
    d["layout"] = trace.get("layout")
    d["world"] = trace.get("world")
    d["crash_points"] = "all (thorough)" if trace.get("tier") == "thorough" else "structural + 2 random (quick)"
    return d

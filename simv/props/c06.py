"""C06 - DDP Shampoo equals serial Shampoo, replicas identical, collectives agree (DESIGN section 4, C06)."""

from __future__ import annotations

import copy
import random
from collections import Counter

import torch

from .. import gen, spec, world, worldrun
from ..engine import Violation, config_features
from ..runner import Outcome
from . import common

ID = "C06"
ENGINE = "multi-rank-world"
LEVEL = "exploration"
DESIGN_REF = "DESIGN.md section 4 (C06), 2.1-2.3, 3.2-3.5"
TECHNIQUE = (
    "deterministic simulation: N ranks of the real DDP distributor + torch.distributed/DeviceMesh/DTensor in one process "
    "under a seeded rank scheduler over a simulated collective backend; serial twin, replica agreement, collective-history "
    "checker, deadlock detector; faults: absent gradients, rank starvation, rank skew/stall, lossy communication"
)
LEVEL_TEXT = (
    "Seeded search over worlds (size, group size, communication options), configurations, histories and rank schedules. "
    "Every run compares every rank after every step with the single-process optimizer, replicas bit-for-bit, the per-rank "
    "process-group-creation and collective histories, and detects ranks left waiting. The existing suite runs none of this code."
)
LEVEL_NOTE = (
    "Trusted: the simulated backend implements the c10d collective contract (reliable, ordered per group); real "
    "torch.distributed python layer, DeviceMesh, DTensor above it. No NCCL/gloo timing; message loss / mid-collective "
    "crashes are not injected because the property makes no claim under them (DESIGN section 1)."
)
BUDGET = {"quick": 55.0, "thorough": 600.0}
RULE = (
    "seeded generation of (world size 1..8, group size, communicate_params, communication dtype, configuration, parameter "
    "set with >= 1 block per rank, ownership-aware presence history with scheduler writes and in-place parameter rescalings on "
    "every rank, rank schedule with per-run skew); non-trivial = at least "
    "one step compared against the serial twin on a world of >= 2 ranks; distinct = distinct (world shape, communication "
    "options, configuration feature vector, presence classes, outcome) tuples"
)
DISTINCT_MEASURE = "distinct (world shape, comm options, config features, presence classes) + distinct scheduler-choice digests"
ASSUMPTIONS = [
    "simulated process-group backend: reliable collectives, data moves when the last member arrives",
    "gradients are identical on all replicas (as after DDP all-reduce); generated from seeds",
    "rank skew is scheduler starvation between yield points (collective entry/exit, construction, step boundaries)",
    "eigen solver only in worlds (iterative solvers' natural failures are exercised single-node)",
    "lossy-communication bound is element-wise: u_comm*|delta| (updates) or u_comm*|w| (params) plus the parameter dtype's own rounding",
]
COMPONENTS = {
    "real": [
        "DistributedShampoo, DDPDistributor, preconditioner lists, matrix functions",
        "torch.distributed python layer (init_process_group, new_group, new_subgroups, all_gather_into_tensor)",
        "DeviceMesh, DTensor",
    ],
    "stub": [
        "process-group backend (SimProcessGroup)",
        "c10d world registry made per rank thread",
        "ranks = parked threads under a seeded scheduler",
        "functools.cache on get_device_mesh made per rank",
        "model/autograd: seeded gradients",
    ],
}
REQUIRED_PROBES = {
    "quick": ["exact_compare", "replica_compare", "world_ge2", "presence_changed_world"],
    "thorough": [
        "exact_compare",
        "lossy_compare",
        "replica_compare",
        "world_ge2",
        "subgroup_world",
        "communicate_params_world",
        "presence_changed_world",
        "rank_runs_ahead_one_step",
        "starved_history",
        "schedule_invariance_checked",
    ],
}

WORLD_SIZES = [1, 2, 2, 2, 3, 3, 4, 4, 4, 5, 6, 8]


def divisors(n: int) -> list[int]:
    return [d for d in range(1, n + 1) if n % d == 0]


def gen_world_params(rng: random.Random, config: dict, groups_n: int, gsize: int, dtype: str) -> tuple[list[dict], list[dict]]:
    """Parameters and groups such that every group has at least gsize blocks."""
    params: list[dict] = []
    groups: list[dict] = []
    for gi in range(groups_n):
        ov = {}
        if gi > 0:
            other = gen.gen_config(rng, simple_solver=True)
            for key in rng.sample(["lr", "betas", "momentum", "weight_decay", "precondition_frequency", "max_preconditioner_dim"], 2):
                ov[key] = copy.deepcopy(other[key])
        eff = spec.effective_group_config(config, ov)
        mine: list[int] = []
        nblocks = 0
        tries = 0
        while nblocks < gsize or len(mine) < 1 or (tries < 2 and rng.random() < 0.5):
            tries += 1
            if mine and rng.random() < 0.3:
                shape = list(params[rng.choice(mine)]["shape"])
            else:
                shape = gen.gen_shape(rng, max_numel=200)
            params.append({"shape": shape, "dtype": dtype, "init_seed": rng.randrange(1 << 30), "init_scale": 1.0})
            mine.append(len(params) - 1)
            nblocks += len(worldrun.ref_block_numels(shape, eff["max_preconditioner_dim"], eff["use_merge_dims"]))
            if len(mine) > 12:
                break
        groups.append({"params": mine, "overrides": ov})
    return params, groups


def mix_dtypes(rng: random.Random, params: list[dict], dtype: str) -> None:
    """A share of worlds mixes parameter dtypes inside a group (float32 with bfloat16), the first parameter being the
    narrow one half of the time."""
    if dtype != "float32" or len(params) < 2 or rng.random() > 0.15:
        return
    for i, p in enumerate(params):
        if (i == 0 and rng.random() < 0.5) or (i > 0 and rng.random() < 0.4):
            p["dtype"] = "bfloat16"


def predicted_param_owners(trace: dict, gsize: int, itemsize: int) -> list[list[set]]:
    """Per group: for every param (group-local order) the set of group ranks predicted to own one of its blocks."""
    out = []
    for g in trace["groups"]:
        eff = spec.effective_group_config(trace["config"], g.get("overrides", {}))
        numels: list[int] = []
        per_param = []
        for pi in g["params"]:
            nb = worldrun.ref_block_numels(trace["params"][pi]["shape"], eff["max_preconditioner_dim"], eff["use_merge_dims"])
            per_param.append(len(nb))
            numels.extend(nb)
        owners = worldrun.predict_owners(numels, itemsize, gsize)
        res = []
        k = 0
        for nb in per_param:
            res.append(set(owners[k : k + nb]))
            k += nb
        out.append(res)
    return out


def repair_mask(rng: random.Random, trace: dict, owners: list[list[set]], gsize: int, mask: list[bool]) -> list[bool]:
    """Make the presence pattern non-starving under the predicted ownership (adds gradients only)."""
    m = list(mask)
    for g, own in zip(trace["groups"], owners):
        if not any(m[pi] for pi in g["params"]):
            continue
        for r in range(gsize):
            mine = [pi for pi, o in zip(g["params"], own) if r in o]
            if mine and not any(m[pi] for pi in mine):
                m[rng.choice(mine)] = True
    return m


def starve_mask(rng: random.Random, trace: dict, owners: list[list[set]], gsize: int, mask: list[bool]) -> list[bool] | None:
    m = list(mask)
    order = list(range(len(trace["groups"])))
    rng.shuffle(order)
    for gi in order:
        g, own = trace["groups"][gi], owners[gi]
        ranks = list(range(gsize))
        rng.shuffle(ranks)
        for r in ranks:
            mine = [pi for pi, o in zip(g["params"], own) if r in o]
            others = [pi for pi, o in zip(g["params"], own) if r not in o]
            if mine and others:
                for pi in mine:
                    m[pi] = False
                m[rng.choice(others)] = True
                return m
    return None


def gen_world_history(rng: random.Random, trace: dict, gsize: int, itemsize: int, n_events: int, starve: bool) -> list[dict]:
    n = len(trace["params"])
    owners = predicted_param_owners(trace, gsize, itemsize)
    style = gen.gen_presence_style(rng, n)
    style["never"] = []
    events: list[dict] = []
    prev = None
    prev_g: list = [None] * n
    starve_at = rng.randrange(n_events) if starve else -1
    step = 0
    while len(events) < n_events:
        if events and rng.random() < 0.08:
            gi = rng.randrange(len(trace["groups"]))
            key = rng.choice(["lr", "weight_decay"])
            val = gen.f32r(rng, 1e-3, 0.5) if key == "lr" else rng.choice([0.0, 1e-2, 0.1])
            events.append({"op": "set_hparam", "group": gi, "key": key, "value": val})
            continue
        if events and rng.random() < 0.05:
            # every rank rescales its copy of one parameter in place between two steps (clipping, a model load)
            events.append({"op": "poke", "param": rng.randrange(n), "scale": rng.choice([0.5, 0.9, 1.25, -1.0, 2.0])})
            continue
        mask = gen.gen_mask(rng, style, n, step, prev)
        mask = repair_mask(rng, trace, owners, gsize, mask)
        if len(events) == starve_at:
            sm = starve_mask(rng, trace, owners, gsize, mask)
            if sm is not None:
                mask = sm
        g = []
        for i in range(n):
            if mask[i]:
                gr = gen.gen_grad(rng, prev_g[i])
                gr[2] = rng.choice([1.0, 1.0, 1.0, 0.1, 10.0])
                prev_g[i] = gr
                g.append(gr)
            else:
                g.append(None)
        events.append({"op": "step", "g": g})
        prev = mask
        step += 1
    return events


def gen_world_config(rng: random.Random) -> dict:
    config = gen.gen_config(rng, simple_solver=True)
    config["preconditioner"]["solver"]["enhance_stability"] = False
    config["epsilon"] = rng.choice([1e-8, 1e-6, 1e-4, 1e-2, 1e-1, 1.0])
    return config


def generate(rng: random.Random, tier: str) -> dict:
    config = gen_world_config(rng)
    dtype = rng.choice(["float32", "float32", "float32", "float64", "bfloat16"])
    if dtype == "bfloat16":
        config["preconditioner_dtype"] = "float32"
    n = rng.choice(WORLD_SIZES)
    g = rng.choice(divisors(n) + [-1, -1])
    gsize = n if g == -1 else g
    comm = rng.choice(["DEFAULT", "DEFAULT", "FP32", "FP16", "BF16"])
    w = {
        "kind": "ddp",
        "size": n,
        "num_trainers_per_group": g,
        "communicate_params": rng.random() < 0.4,
        "comm_dtype": comm,
        "stickiness": rng.choice([0.0, 0.0, 0.5, 0.9, 0.98]),
        "weights": [rng.choice([1.0, 1.0, 1.0, 0.1, 0.02]) for _ in range(n)],
    }
    groups_n = rng.choice([1, 1, 1, 2])
    params, groups = gen_world_params(rng, config, groups_n, gsize, dtype)
    mix_dtypes(rng, params, dtype)
    trace = {
        "schema": 1,
        "property": ID,
        "engine": "world",
        "config": config,
        "groups": groups,
        "params": params,
        "world": w,
        "schedule_seed": rng.randrange(1 << 30),
        "schedule": None,
    }
    n_events = rng.choice([1, 2, 3, 4, 6, 8, 10] + ([16, 24] if tier == "thorough" else []))
    starve = rng.random() < 0.12 and gsize > 1
    itemsize = worldrun.COMM[comm].itemsize
    trace["events"] = gen_world_history(rng, trace, gsize, itemsize, n_events, starve)
    trace["check_schedule_invariance"] = tier == "thorough" or rng.random() < 0.34
    return trace


def world_features(trace: dict) -> dict:
    w = trace["world"]
    cfg = spec.effective_group_config(trace["config"], trace["groups"][0].get("overrides", {}))
    f = {f"f_{k}": v for k, v in config_features(cfg, [p["dtype"] for p in trace["params"]]).items()}
    f.update(
        {
            "world_kind": w["kind"],
            "world_size": w["size"],
            "num_trainers_per_group": w.get("num_trainers_per_group"),
            "communicate_params": w.get("communicate_params"),
            "comm_dtype": w.get("comm_dtype"),
            "n_groups": len(trace["groups"]),
        }
    )
    return f


def run_world_once(trace: dict, schedule_seed: int, schedule, build=None):
    w = trace["world"]
    outs = [worldrun.RankOut() for _ in range(w["size"])]
    world.install()
    sim = world.Sim(w["size"], schedule_seed, schedule, w.get("stickiness", 0.0), w.get("weights"))
    sim.run(worldrun.make_rank_main(trace, outs, build))
    return sim, outs


def natural_world_failure(trace: dict, sim, outs) -> bool:
    from .. import depmon

    for r in sim.ranks:
        if r.exc is not None:
            msg = str(r.exc)
            if isinstance(r.exc, ValueError) and "nan or inf values in" in msg and depmon.count() > sim.dep_before:
                return True  # torch.linalg.eigh returned a non-finite decomposition of a finite matrix (simv/depmon.py)
            if isinstance(r.exc, ValueError) and (
                "factor matrix" in msg or "exceeded the allowed tolerance" in msg or "eigenvectors" in msg
            ):
                # diverged trajectory? (overflow with finite gradients)
                for o in outs:
                    for snap in o.snaps.values():
                        for t in snap:
                            if t.numel() and (not bool(torch.isfinite(t).all()) or float(t.abs().max()) > 1e12):
                                return True
    return False


def evaluate_ddp_like(trace: dict, sim, outs, prop: str, probes: Counter, replica_sets, serial_compare=True) -> Violation | None:
    ctx = world_features(trace)
    n = trace["world"]["size"]
    if n >= 2:
        probes["world_ge2"] += 1
    # presence / starvation classification from the *real* ownership
    first_starved = None
    prev_mask = None
    for ei, ev in enumerate(trace["events"]):
        if ev["op"] != "step":
            continue
        mask = [g is not None for g in ev["g"]]
        if prev_mask is not None and mask != prev_mask:
            probes["presence_changed_world"] += 1
        prev_mask = mask
        if True:
            sr = worldrun.starved_ranks(trace, outs, ev)
            if sr and first_starved is None:
                first_starved = (ei, sr)
    if first_starved is not None:
        probes["starved_history"] += 1
    ctx["starved"] = first_starved is not None
    progress = [r.progress for r in sim.ranks]
    if max(progress) - min(progress) >= 1:
        pass
    if sim.outcome == "deadlock":
        ev_i = min(progress)
        c = dict(ctx)
        c["blocked"] = sim.deadlock_info
        c["progress"] = progress
        c["starved_at_or_before"] = first_starved is not None and first_starved[0] <= max(progress)
        c["starved"] = c["starved_at_or_before"]
        return Violation(prop, "deadlock", ev_i, c)
    if sim.outcome == "step_cap":
        return Violation(prop, "deadlock", min(progress), {**ctx, "livelock": True})
    if sim.mismatch is not None:
        ev_i = min(progress)
        c = dict(ctx)
        c["mismatch"] = sim.mismatch
        c["starved"] = first_starved is not None and first_starved[0] <= max(progress)
        return Violation(prop, "collective_mismatch", ev_i, c)
    if sim.outcome == "rank_failed":
        if natural_world_failure(trace, sim, outs):
            probes["ended_by_divergence"] += 1
        else:
            r = next(r for r in sim.ranks if r.exc is not None)
            return Violation(
                prop,
                "unexpected_exception",
                r.progress,
                {**ctx, "rank": r.idx, "exc_type": type(r.exc).__name__, "exc": str(r.exc)[:300], "tb": r.exc_tb[-800:]},
            )
    v = worldrun.check_history(sim, prop, ctx)
    if v is not None:
        return v
    v = worldrun.check_replicas(outs, prop, ctx, replica_sets, probes)
    if v is not None:
        return v
    if serial_compare:
        last = min(progress) - 1
        v = worldrun.compare_with_serial(trace, outs, prop, ctx, probes, last)
        if v is not None:
            return v
    return None


def ran_ahead(sim) -> bool:
    """Did some rank finish event e+1 before another finished event e?"""
    done: dict[int, int] = {}
    for e in sim.log:
        if e[2] == "event_done":
            done[e[1]] = e[3]
            if len(done) == sim.n and max(done.values()) - min(done.values()) >= 1:
                return True
            if len(done) < sim.n and e[3] >= 1:
                return True
    return False


def execute(trace: dict) -> Outcome:
    common.quiet_logs()
    probes: Counter = Counter()
    w = trace["world"]
    sim, outs = run_world_once(trace, trace["schedule_seed"], trace.get("schedule"))
    if trace.get("schedule") is None:
        trace["schedule_taken_len"] = len(sim.choices)
    if ran_ahead(sim):
        probes["rank_runs_ahead_one_step"] += 1
    gsize = w["size"] if w["num_trainers_per_group"] == -1 else w["num_trainers_per_group"]
    if 1 < gsize < w["size"]:
        probes["subgroup_world"] += 1
    if w["communicate_params"]:
        probes["communicate_params_world"] += 1
    v = evaluate_ddp_like(trace, sim, outs, ID, probes, [list(range(w["size"]))])
    interleaving = spec.digest(sim.choices)
    if v is None and trace.get("check_schedule_invariance") and w["size"] > 1 and sim.outcome == "ok":
        sim2, outs2 = run_world_once(trace, trace["schedule_seed"] ^ 0x5A5A5A5, None)
        probes["schedule_invariance_checked"] += 1
        if sim2.outcome != sim.outcome:
            v = Violation(ID, "schedule_dependent_result", -1, {**world_features(trace), "outcome_a": sim.outcome, "outcome_b": sim2.outcome})
        else:
            for r in range(w["size"]):
                for ei in outs[r].snaps:
                    if ei in outs2[r].snaps and worldrun.digest_params(outs[r].snaps[ei]) != worldrun.digest_params(outs2[r].snaps[ei]):
                        v = Violation(ID, "schedule_dependent_result", ei, {**world_features(trace), "rank": r})
                        break
                if v is not None:
                    break
    steps = sum(len(o.snaps) for o in outs)
    feats = world_features(trace)
    abstract = [
        (
            tuple(sorted((k, str(x)) for k, x in feats.items())),
            probes.get("presence_changed_world", 0) > 0,
            probes.get("starved_history", 0) > 0,
            sim.outcome,
        )
    ]
    return Outcome(
        violation=v,
        probes=probes,
        faults=Counter(
            {
                "absent_grad_steps": sum(1 for e in trace["events"] if e["op"] == "step" and any(g is None for g in e["g"])),
                "rank_starved": probes.get("starved_history", 0),
                "rank_skew_run": 1 if (w.get("stickiness", 0) > 0 or min(w.get("weights") or [1.0]) < 1.0) else 0,
                "lossy_comm_run": 1 if probes.get("lossy_compare", 0) else 0,
                "hparam_write": sum(1 for e in trace["events"] if e["op"] == "set_hparam"),
                "param_poke": sum(1 for e in trace["events"] if e["op"] == "poke"),
            }
        ),
        nontrivial=w["size"] >= 2 and (probes.get("exact_compare", 0) + probes.get("lossy_compare", 0)) > 0,
        abstract=abstract,
        steps=steps,
        sched_events=len(sim.choices),
        interleaving=interleaving,
        digest=worldrun.world_digest(sim, outs),
    )


def sample_view(trace: dict) -> dict:
    return {
        "world": trace["world"],
        "config": trace["config"],
        "groups": trace["groups"],
        "params": [(p["shape"], p["dtype"]) for p in trace["params"]],
        "events": [
            (["step", [None if g is None else g[1] for g in e["g"]]] if e["op"] == "step" else [e["op"]] + [e[k] for k in ("group", "key", "value", "param", "scale") if k in e])
            for e in trace["events"][:10]
        ],
        "schedule_seed": trace["schedule_seed"],
    }

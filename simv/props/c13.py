"""C13 - failed root computations tolerated N times then raised; stored roots finite (DESIGN section 4, C13)."""

from __future__ import annotations

import logging
import random
from collections import Counter
from typing import Any

import torch

from .. import adapter, depmon, engine, gen, refmodel, spec
from ..engine import Oracle, SingleRun
from ..runner import Outcome
from . import common

ID = "C13"
ENGINE = "single-node-history"
LEVEL = "fault_enumeration"
DESIGN_REF = "DESIGN.md section 4 (C13), 2.3"
TECHNIQUE = (
    "deterministic simulation with fault injection at the matrix-routine seam (exception / NaN / Inf result / low-precision "
    "eigh failure per (refresh, block, factor), non-finite gradients) x gradient-presence histories; executable model of the "
    "per-block consecutive-failure counters; bitwise monitors on stored roots and parameters"
)
LEVEL_TEXT = (
    "Structured fault plans per run (persistent failure of one block, intermittent failures, bursts straddling a presence "
    "change, single-factor failures, sequences exactly N and N+1 long, success in between) are injected into the real "
    "optimizer at the same seam the repository's own tests mock. A counter model decides at every refresh whether step() "
    "must raise; roots of failed factors must stay bit-identical, a warning must be logged, non-finite results/factors must "
    "raise PreconditionerValueError with the group's parameters untouched, stored roots/bases stay finite."
)
LEVEL_NOTE = (
    "The wrapper maps call order to (block, factor) from the block layout read from the real distributor and validates it by "
    "shape; a mismatch is a harness error, never a violation. The fault space per run is structured; the search over plans, "
    "histories and configurations is seeded sampling."
)
BUDGET = {"quick": 50.0, "thorough": 600.0}
RULE = (
    "seeded (Shampoo or SOAP list, tolerance N in 0..4, precondition_frequency 1..4, 1-4 parameters with several blocks, presence "
    "history in which blocks enter/leave the active set between refreshes, fault plan over (refresh, block, factor)); non-trivial = "
    "at least one injected fault fired at a refresh; distinct = distinct (kind, N, frequency, sequence of per-refresh "
    "(participating blocks, failing blocks) signatures, outcome)"
)
DISTINCT_MEASURE = "distinct per-run sequences of (participating blocks, failed blocks, counter vector) over refreshes"
ASSUMPTIONS = [
    "any exception type is accepted when the tolerance is exceeded; PreconditionerValueError is required only for non-finite results / factors",
    "'logs a warning' = at least one WARNING record in a refresh that contains a failure",
    "a low-precision eigh failure with the retry option is not a failed refresh",
    "after a raising step the run ends (state after it is not interpreted)",
]
COMPONENTS = {
    **common.COMPONENTS_SINGLE,
    "fault_seam": [
        "module attributes shampoo_preconditioner_list.matrix_inverse_root / matrix_eigenvectors wrapped (the real routine runs underneath)",
        "torch.linalg.eigh wrapped for the low-precision-failure fault",
    ],
}
REQUIRED_PROBES = {
    "quick": ["fault_exception", "fault_nonfinite_result", "tolerance_exceeded", "counter_reset_after_success", "refresh_with_mask_change_since_last_failure"],
    "thorough": [
        "fault_exception",
        "fault_nonfinite_result",
        "fault_lowprec_retry",
        "fault_lowprec_noretry",
        "fault_nonfinite_grad",
        "tolerance_exceeded",
        "exactly_N_then_success",
        "counter_reset_after_success",
        "refresh_with_mask_change_since_last_failure",
        "single_factor_failure_in_multifactor_block",
        "soap_run",
        "shampoo_run",
    ],
}


class InjectedFailure(RuntimeError):
    pass


class FaultSeam:
    """Wraps the matrix routine inside the preconditioner-list module; decides per call from the plan."""

    def __init__(self) -> None:
        import distributed_shampoo.utils.shampoo_preconditioner_list as m

        self.m = m
        depmon.install()  # (the monitor sits underneath the fault seam)
        for name in ("matrix_inverse_root", "matrix_eigenvectors"):
            if not hasattr(m, name):
                raise adapter.HarnessError(f"fault seam missing: shampoo_preconditioner_list.{name}")
        self.orig_root = m.matrix_inverse_root
        self.orig_eig = m.matrix_eigenvectors
        self.orig_eigh = torch.linalg.eigh
        self.queue: list[dict] = []  # expected calls of the current step, in order
        self.fired: list[dict] = []
        self.lowprec_flag = False
        self.unexpected_calls = 0

    def install(self) -> None:
        seam = self

        def eigh(A, *a, **k):
            if seam.lowprec_flag and A.dtype != torch.float64:
                raise InjectedFailure("injected: low-precision eigh failure")
            return seam.orig_eigh(A, *a, **k)

        def wrap(orig):
            def routine(*args, **kwargs):
                A = kwargs.get("A", args[0] if args else None)
                if not seam.queue:
                    seam.unexpected_calls += 1
                    return orig(*args, **kwargs)
                call = seam.queue.pop(0)
                if tuple(A.shape) != (call["dim"], call["dim"]):
                    raise adapter.HarnessError(f"fault seam: call order does not match the block layout: {tuple(A.shape)} vs {call}")
                kind = call["fault"]
                seam.fired.append(call)
                if kind == "ok":
                    return orig(*args, **kwargs)
                if kind == "exception":
                    raise InjectedFailure("injected: matrix routine failure")
                if kind in ("nan", "inf"):
                    out = orig(*args, **kwargs).contiguous().clone()
                    out.view(-1)[0] = float("nan") if kind == "nan" else float("inf")
                    return out
                if kind == "huge":
                    # finite in the routine's (float64) precision, beyond the range of the float32 storage dtype
                    out = orig(*args, **kwargs).contiguous().clone()
                    if out.dtype == torch.float64:
                        out.view(-1)[0] = 1e39
                    return out
                if kind == "lowprec":
                    # whether the fault amounts to a failure depends on the path taken underneath (diagonal / 1x1 fast
                    # paths and float64 factors never reach the low-precision eigh; the retry option recovers): the
                    # effect is recorded dynamically
                    seam.lowprec_flag = True
                    try:
                        out = orig(*args, **kwargs)
                        call["effect"] = "ok"
                        return out
                    except InjectedFailure:
                        call["effect"] = "exception"
                        raise
                    finally:
                        seam.lowprec_flag = False
                raise adapter.HarnessError(f"unknown fault kind {kind}")

            return routine

        self.m.matrix_inverse_root = wrap(self.orig_root)
        self.m.matrix_eigenvectors = wrap(self.orig_eig)
        torch.linalg.eigh = eigh

    def uninstall(self) -> None:
        self.m.matrix_inverse_root = self.orig_root
        self.m.matrix_eigenvectors = self.orig_eig
        torch.linalg.eigh = self.orig_eigh


class FaultOracle(Oracle):
    def __init__(self, seam: FaultSeam) -> None:
        self.seam = seam
        self.counters: dict[tuple[int, int], int] = {}
        self.refresh_index: dict[int, int] = {}
        self.history: list = []
        self.poisoned: set[tuple[int, int]] = set()  # blocks whose factor matrices hold non-finite values
        self.mask_changed_since_failure: dict[int, bool] = {}
        self.mask_changed_while_counting: dict[tuple[int, int], bool] = {}
        self.prev_present: list[bool] | None = None
        self.expected: dict | None = None
        self.diverged = False
        self.diverged_counted = False

    def on_built(self, run: SingleRun) -> None:
        for gi, refs in enumerate(run.blocks):
            for b in refs:
                self.counters[(gi, b.li)] = 0
            self.refresh_index[gi] = 0

    def pre_step(self, run: SingleRun, ei: int, ev: dict) -> None:
        seam = self.seam
        seam.queue = []
        seam.fired = []
        self.blocks_plan = []
        self.refresh_groups = []
        # a trajectory that leaves the representable range (overflow with finite gradients) carries no verdict
        for p in run.params:
            pv = p.detach()
            if pv.numel() and bool(torch.isfinite(pv).all()) and float(pv.abs().max()) > 1e8:
                self.diverged = True
        if self.diverged:
            run.probes["diverged_run"] += 1 if not self.diverged_counted else 0
            self.diverged_counted = True
            return
        present = [g is not None for g in ev["g"]]
        if self.prev_present is not None and present != self.prev_present:
            for gi in self.mask_changed_since_failure:
                self.mask_changed_since_failure[gi] = True
            for key, c in self.counters.items():
                if c > 0:
                    self.mask_changed_while_counting[key] = True
        self.prev_present = present
        plan = {(f["group"], f["block"], f["factor"]): f["kind"] for f in ev.get("faults", [])}
        self.snap_params = [p.detach().clone() for p in run.params]
        self.snap_roots: dict[tuple[int, int], list[torch.Tensor]] = {}
        self.blocks_plan: list[dict] = []
        self.refresh_groups: list[int] = []
        for gi, refs in enumerate(run.blocks):
            hp = run.hps[gi]
            if not run.group_present(gi, ev):
                continue
            t = run.counters[gi] + 1
            # non-finite gradient entries (or non-finite parameters under coupled decay) poison the factor matrices
            for b in refs:
                if ev["g"][b.param_index] is None or not run.opt.state[b.param][b.key]["shampoo"].factor_matrices:
                    continue
                gb = torch.take(b.param.grad.detach().reshape(-1), b.idx)
                bad = not refmodel.is_finite(gb)
                if hp.weight_decay != 0.0 and not hp.decoupled:
                    bad = bad or not refmodel.is_finite(torch.take(b.param.detach().reshape(-1), b.idx))
                if bad:
                    self.poisoned.add((gi, b.li))
            if not hp.is_refresh(t):
                continue
            self.refresh_groups.append(gi)
            self.refresh_index[gi] += 1
            for b in refs:
                if ev["g"][b.param_index] is None:
                    continue
                sh = run.opt.state[b.param][b.key]["shampoo"]
                inv = sh.inv_factor_matrices if hasattr(sh, "inv_factor_matrices") else sh.factor_matrices_eigenvectors
                self.snap_roots[(gi, b.li)] = [spec._local(x).detach().clone() for x in inv]
                pdims = refmodel.preconditioned_dims(hp, b.block.dim())
                calls = []
                for k, d in enumerate(pdims):
                    dim = b.block.shape[d]
                    kind = plan.get((gi, b.li, k), "ok")
                    eff = kind
                    if kind == "lowprec":
                        eff = "ok" if (hp.solver.get("retry", True) or hp.precond_dtype == torch.float64 or dim == 1) else "exception"
                    if kind == "huge":
                        # the stored root has the parameter's dtype: a value that overflows there is a non-finite root
                        if hp.kind == "shampoo" and hp.precond_dtype == torch.float64 and b.param.dtype == torch.float32:
                            eff = "inf"
                        else:
                            kind, eff = "ok", "ok"
                    calls.append({"group": gi, "block": b.li, "factor": k, "dim": dim, "fault": kind, "effect": eff})
                self.blocks_plan.append({"key": (gi, b.li), "poisoned": (gi, b.li) in self.poisoned, "calls": calls})
                if (gi, b.li) not in self.poisoned:
                    seam.queue.extend(calls)
                else:
                    # the factor check precedes the routine; nothing after this block is reached
                    break
            if any(bp["poisoned"] for bp in self.blocks_plan):
                break

    def _expectation(self, run: SingleRun) -> dict:
        """Replay the documented failure handling over the calls of this step (effects of low-precision faults are the
        ones observed underneath the wrapper)."""
        exp: dict[str, Any] = {"raise": None, "failed_blocks": [], "participants": [], "refresh_groups": self.refresh_groups}
        for bp in self.blocks_plan:
            gi, li = bp["key"]
            hp = run.hps[gi]
            exp["participants"].append((gi, li))
            if bp["poisoned"]:
                exp["raise"] = {"type": "PreconditionerValueError", "group": gi, "block": li, "why": "nonfinite_factor"}
                return exp
            failures = []
            for c in bp["calls"]:
                if c["effect"] in ("nan", "inf"):
                    exp["raise"] = {"type": "PreconditionerValueError", "group": gi, "block": li, "why": "nonfinite_result"}
                    return exp
                if c["effect"] == "exception":
                    failures.append(c["factor"])
            if failures:
                exp["failed_blocks"].append((gi, li, failures))
                cnt = self.counters[(gi, li)] + 1
                if cnt > hp.tolerated_failures:
                    exp["raise"] = {"type": "any", "group": gi, "block": li, "why": "tolerance_exceeded", "count": cnt}
                    return exp
        return exp

    def post_step(self, run: SingleRun, ei: int, ev: dict, exc: BaseException | None) -> None:
        if self.diverged:
            run.log.take()
            return
        exp = self._expectation(run)
        seam = self.seam
        records = run.log.take()
        warned = any(r.levelno >= logging.WARNING for r in records)  # (the property says "logs a warning", not its wording)
        fired = Counter(c["fault"] for c in seam.fired if c["fault"] != "ok")
        for c in seam.fired:
            if c["fault"] == "exception":
                run.probes["fault_exception"] += 1
            elif c["fault"] in ("nan", "inf"):
                run.probes["fault_nonfinite_result"] += 1
            elif c["fault"] == "huge":
                run.probes["fault_overflowing_result"] += 1
            elif c["fault"] == "lowprec":
                run.probes["fault_lowprec_retry" if c["effect"] == "ok" else "fault_lowprec_noretry"] += 1
        run.fault_counts.update(fired)
        ctx: dict[str, Any] = {
            "kind": run.hps[0].kind,
            "tolerance": run.hps[0].tolerated_failures,
            "expected": exp["raise"],
            "fired": dict(fired),
        }
        # -- raise / not raise ------------------------------------------------------------------------------------------
        if seam.unexpected_calls and not (exp["raise"] is not None and exp["raise"]["why"] == "nonfinite_factor"):
            # (the model stops at a block with a non-finite factor matrix; an implementation that reaches the routine and
            # rejects its non-finite result, or does not reject at all, is judged by the raise / no-raise clauses below.
            # Every other unmodelled call is a harness problem)
            raise adapter.HarnessError("matrix routine called outside the modelled refresh order")
        if exp["raise"] is None and exc is not None and "nan or inf values in" in str(exc) and depmon.count() > getattr(run, "dep_before", 1 << 60):
            # torch.linalg.eigh itself returned a non-finite decomposition of a finite matrix in this step: the documented
            # answer is this raise; the run ends without a verdict on the rest
            run.probes["dependency_eigh_nonfinite"] += 1
            self.diverged = True
            return
        if exp["raise"] is None and exc is not None:
            gi = next(iter(exp["refresh_groups"]), 0)
            tag = "raised_too_early" if "tolerance" in str(exc) else "unexpected_exception"
            raise run.violation(tag, gi, exc_type=type(exc).__name__, exc=str(exc)[:200], counters=self._counter_view(), **ctx)
        if exp["raise"] is not None and exc is None:
            why = exp["raise"]["why"]
            tag = "not_raised_when_due" if why == "tolerance_exceeded" else "nonfinite_not_rejected"
            raise run.violation(
                tag,
                exp["raise"]["group"],
                counters=self._counter_view(),
                mask_changed_while_counting=bool(self.mask_changed_while_counting.get((exp["raise"]["group"], exp["raise"]["block"]))),
                **ctx,
            )
        if exp["raise"] is not None and exc is not None:
            gi = exp["raise"]["group"]
            from distributed_shampoo.shampoo_types import PreconditionerValueError

            if exp["raise"]["type"] == "PreconditionerValueError" and not isinstance(exc, PreconditionerValueError):
                raise run.violation("nonfinite_not_rejected", gi, exc_type=type(exc).__name__, exc=str(exc)[:200], **ctx)
            if exp["raise"]["why"] == "tolerance_exceeded":
                run.probes["tolerance_exceeded"] += 1
                if len(run.trace["groups"]) == 1:
                    # the caller catches the tolerance error and keeps training: the streak is not forgotten, so every further
                    # failing refresh of that block raises again until a fully successful one (single-group traces only: a
                    # raise in one group leaves the later groups of that step unprocessed, which the step counters of the
                    # model do not follow)
                    run.resume_after_raise = True
                    run.probes["resumed_after_tolerance_error"] += 1
                if self.mask_changed_since_failure.get(gi):
                    run.probes["tolerance_exceeded_after_mask_change"] += 1
            if exp["raise"]["type"] == "PreconditionerValueError":
                if exp["raise"]["why"] == "nonfinite_factor":
                    run.probes["fault_nonfinite_grad"] += 1
                # parameters of that group must be byte-identical before/after the failing step
                for pi in run.trace["groups"][gi]["params"]:
                    if not spec.bit_equal(run.params[pi].detach(), self.snap_params[pi]):
                        raise run.violation("params_modified_before_raise", gi, param=pi, **ctx)
        # -- per-block clauses for the blocks processed before a raise (or all) --------------------------------------------
        any_failure = False
        fired_keys = {(c["group"], c["block"], c["factor"]) for c in seam.fired}
        for gi, li, failures in exp["failed_blocks"]:
            # only computations that were actually attempted in this step are judged: an implementation may reject a
            # non-finite factor matrix of a later block before it calls the routine for any block of the refresh
            failures = [k for k in failures if (gi, li, k) in fired_keys]
            if not failures:
                continue
            any_failure = True
            b = run.blocks[gi][li]
            sh = run.opt.state[b.param][b.key]["shampoo"]
            inv = sh.inv_factor_matrices if hasattr(sh, "inv_factor_matrices") else sh.factor_matrices_eigenvectors
            for k in failures:
                if not spec.bit_equal(spec._local(inv[k]), self.snap_roots[(gi, li)][k]):
                    raise run.violation("failed_factor_overwritten", gi, block=b.key, factor=k, **ctx)
            if len(failures) < len(inv):
                run.probes["single_factor_failure_in_multifactor_block"] += 1
        if any_failure and not warned:
            raise run.violation("no_warning_logged", exp["failed_blocks"][0][0], **ctx)
        # stored roots / bases finite after every event (for blocks not poisoned by a non-finite gradient)
        for gi, refs in enumerate(run.blocks):
            for b in refs:
                sh = run.opt.state[b.param][b.key]["shampoo"]
                inv = sh.inv_factor_matrices if hasattr(sh, "inv_factor_matrices") else sh.factor_matrices_eigenvectors
                for k, x in enumerate(inv):
                    if not refmodel.is_finite(spec._local(x)):
                        raise run.violation("nonfinite_root_stored", gi, block=b.key, factor=k, **ctx)
        # -- advance the model ---------------------------------------------------------------------------------------------
        failed = {(gi, li) for gi, li, _ in exp["failed_blocks"]}
        sig = []
        for key in exp["participants"]:
            if exp["raise"] is not None and key == (exp["raise"]["group"], exp["raise"]["block"]) and exp["raise"]["why"] != "tolerance_exceeded":
                continue
            if key in failed:
                self.counters[key] += 1
                self.mask_changed_since_failure[key[0]] = False
            else:
                if self.counters[key] > 0:
                    run.probes["counter_reset_after_success"] += 1
                    if self.counters[key] == run.hps[key[0]].tolerated_failures:
                        run.probes["exactly_N_then_success"] += 1
                self.counters[key] = 0
                self.mask_changed_while_counting[key] = False
            sig.append((key, key in failed, self.counters[key]))
        if exp["participants"]:
            self.history.append(tuple(sig))
            if any(self.counters[k] > 0 for k in self.counters) and any(self.mask_changed_since_failure.values()):
                pass
        for gi in exp["refresh_groups"]:
            if failed and self.mask_changed_since_failure.get(gi) is None:
                self.mask_changed_since_failure[gi] = False
        # probe: a refresh in which a block takes part whose count was non-zero while the presence mask changed
        for key in exp["participants"]:
            if self.mask_changed_while_counting.get(key) and self.counters.get(key, 0) > 0:
                run.probes["refresh_with_mask_change_since_last_failure"] += 1

    def _counter_view(self) -> dict:
        return {f"{g}.{l}": c for (g, l), c in self.counters.items()}


# ---------------------------------------------------------------------------------------------------------------------


def generate(rng: random.Random, tier: str) -> dict:
    kind = rng.choice(["shampoo", "shampoo", "soap"])
    config = gen.gen_config(rng, kind=kind, simple_solver=True)
    if kind == "shampoo":
        config["preconditioner"]["solver"]["enhance_stability"] = False
    elif config["preconditioner"]["solver"]["type"] == "qr":
        config["preconditioner"]["solver"]["max_iterations"] = rng.choice([1, 1, 2])
    N = rng.choice([0, 1, 1, 2, 2, 3, 4])
    config["preconditioner"]["tolerated_failures"] = N
    freq = rng.choice([1, 1, 2, 3, 4])
    config["precondition_frequency"] = freq
    config["start_preconditioning_step"] = rng.choice([-1, freq, freq + 1])
    config["epsilon"] = rng.choice([1e-6, 1e-4, 1e-2, 1e-1])
    if config["grafting"] is None or config["grafting"]["type"] == "sgd":
        config["grafting"] = gen.gen_grafting(rng, allow_none=False)
        if config["grafting"]["type"] == "sgd":
            config["grafting"] = {"type": "adagrad", "epsilon": 1e-8}
    config["lr"] = gen.f32r(rng, 1e-3, 0.1)
    config["weight_decay"] = rng.choice([0.0, 0.0, 1e-3, 1e-2])
    config["max_preconditioner_dim"] = rng.choice([2, 3, 4, 5, 8, 1024])
    dtype = rng.choice(["float32", "float32", "float64"])
    config["preconditioner_dtype"] = rng.choice(["float32", "float32", "float64"])
    n_params = rng.choice([1, 2, 2, 3, 4])
    params = gen.gen_params(rng, n_params, dtype, max_numel=120, min_order=1)
    groups = gen.gen_groups(rng, n_params, config, max_groups=2)
    for g in groups:
        for k in ("precondition_frequency", "start_preconditioning_step", "betas", "epsilon", "max_preconditioner_dim", "use_merge_dims", "grafting", "lr", "weight_decay"):
            g["overrides"].pop(k, None)
    style = gen.gen_presence_style(rng, n_params)
    style["style"] = rng.choice(["all", "adversarial", "flip", "random", "sticky"])
    style["never"] = []
    n_refresh_target = rng.choice([2, 3, 4, 6, 8, 10] + ([14, 20] if tier == "thorough" else []))
    n_steps = min(60 if tier == "thorough" else 30, (freq * (n_refresh_target + 1)) + 1)
    events = gen.gen_history(rng, params, groups, config, n_steps, hparam_rate=0.0, style=style)
    for ev in events:
        for g in ev["g"]:
            if g is not None:
                g[2] = rng.choice([1.0, 1.0, 0.1, 10.0])
    trace = {"schema": 1, "property": ID, "engine": "single", "config": config, "groups": groups, "params": params, "world": None, "events": events}
    plan_faults(rng, trace)
    return trace


def block_layout(trace: dict) -> list[list[tuple[int, int]]]:
    """Generator aid: per group the list of (param index, number of factors) per block, predicted independently."""
    from ..worldrun import ref_merge

    out = []
    for g in trace["groups"]:
        eff = spec.effective_group_config(trace["config"], g.get("overrides", {}))
        md, merge = eff["max_preconditioner_dim"], eff["use_merge_dims"]
        ign = set(eff["preconditioner"].get("ignored_dims", []))
        blocks = []
        for pi in g["params"]:
            dims = ref_merge(trace["params"][pi]["shape"], md, merge)
            n = 1
            for d in dims:
                n *= -(-d // md)
            nf = len([d for d in range(len(dims)) if d not in ign])
            blocks.extend([(pi, nf)] * n)
        out.append(blocks)
    return out


def plan_faults(rng: random.Random, trace: dict) -> None:
    layout = block_layout(trace)
    N = trace["config"]["preconditioner"]["tolerated_failures"]
    mode = rng.choice(["persistent", "persistent", "intermittent", "burst", "exact", "nonfinite", "lowprec", "nonfinite_grad", "mixed", "combo"])
    trace["fault_mode"] = mode
    gi = rng.randrange(len(layout))
    if not layout[gi]:
        return
    target = rng.randrange(len(layout[gi]))
    nf = layout[gi][target][1]
    steps = [i for i, e in enumerate(trace["events"]) if e["op"] == "step"]
    # refresh steps are decided at run time from the counters; faults are attached to every step and only consumed at
    # refreshes in which the block takes part, so "the k-th refresh of the block" is expressed by per-step plans
    burst_start = rng.randrange(max(1, len(steps)))
    burst_len = rng.choice([N, N + 1, N + 1, N + 2, 1, 2])
    seen_target = 0
    for n_i, si in enumerate(steps):
        ev = trace["events"][si]
        faults = []
        if mode == "persistent":
            ks = range(nf) if rng.random() < 0.5 else [rng.randrange(nf)] if nf else []
            faults = [{"group": gi, "block": target, "factor": k, "kind": "exception"} for k in ks]
        elif mode == "intermittent":
            if rng.random() < 0.6 and nf:
                faults = [{"group": gi, "block": target, "factor": rng.randrange(nf), "kind": "exception"}]
        elif mode in ("burst", "exact"):
            if burst_start <= n_i and nf:
                faults = [{"group": gi, "block": target, "factor": rng.randrange(nf), "kind": "exception", "burst": True}]
        elif mode == "nonfinite":
            if n_i >= burst_start and nf:
                faults = [{"group": gi, "block": target, "factor": rng.randrange(nf), "kind": rng.choice(["nan", "inf", "huge"])}]
        elif mode == "combo":
            # several outcomes inside one block and one refresh: a throwing factor next to a non-finite result, in both orders
            if n_i >= burst_start and nf >= 2:
                ks = rng.sample(range(nf), 2)
                faults = [
                    {"group": gi, "block": target, "factor": ks[0], "kind": "exception"},
                    {"group": gi, "block": target, "factor": ks[1], "kind": rng.choice(["nan", "inf", "huge"])},
                ]
        elif mode == "lowprec":
            if nf and rng.random() < 0.7:
                faults = [{"group": gi, "block": target, "factor": k, "kind": "lowprec"} for k in range(nf)]
        elif mode == "mixed":
            for bi, (pi, nfb) in enumerate(layout[gi]):
                for k in range(nfb):
                    r = rng.random()
                    if r < 0.25:
                        faults.append({"group": gi, "block": bi, "factor": k, "kind": "exception"})
                    elif r < 0.3:
                        faults.append({"group": gi, "block": bi, "factor": k, "kind": "lowprec"})
                    elif r < 0.34:
                        faults.append({"group": gi, "block": bi, "factor": k, "kind": rng.choice(["nan", "inf", "huge"])})
        ev["faults"] = faults
    if mode in ("burst", "exact"):
        trace["burst_len"] = burst_len
    if mode == "nonfinite_grad" and steps:
        si = rng.choice(steps)
        ev = trace["events"][si]
        pi = layout[gi][target][0]
        if ev["g"][pi] is not None:
            ev["g"][pi] = [ev["g"][pi][0], rng.choice(["inf", "nan", "inf_last", "nan_last"]), 1.0]


class BurstLimiter(Oracle):
    """Turns 'burst' plans into bursts of an exact length *in refreshes the target takes part in* (decided at run time
    from the optimizer's counters, deterministically)."""

    def __init__(self, trace: dict) -> None:
        self.left = trace.get("burst_len")

    def pre_step(self, run: SingleRun, ei: int, ev: dict) -> None:
        if self.left is None:
            return
        faults = [f for f in ev.get("faults", []) if f.get("burst")]
        if not faults:
            return
        f = faults[0]
        gi = f["group"]
        hp = run.hps[gi]
        if not run.group_present(gi, ev) or not hp.is_refresh(run.counters[gi] + 1):
            return
        b = run.blocks[gi][f["block"]] if f["block"] < len(run.blocks[gi]) else None
        if b is None or ev["g"][b.param_index] is None:
            return
        if self.left <= 0:
            ev["faults"] = [x for x in ev["faults"] if not x.get("burst")]
        else:
            self.left -= 1


def execute(trace: dict) -> Outcome:
    common.quiet_logs()
    seam = FaultSeam()
    seam.install()
    try:
        fo = FaultOracle(seam)
        # BurstLimiter must run before FaultOracle.pre_step reads the plan
        import copy

        t = copy.deepcopy(trace)
        run = SingleRun(t, [BurstLimiter(t), fo, engine.FrozenMonitor()], ID, sane_guard=False)
        run.fault_counts = Counter()
        # drop faults that name blocks/factors that do not exist in the real layout (after minimisation)
        for ev in t["events"]:
            if ev["op"] == "step" and ev.get("faults"):
                keep = []
                for f in ev["faults"]:
                    if f["group"] < len(run.blocks) and f["block"] < len(run.blocks[f["group"]]):
                        b = run.blocks[f["group"]][f["block"]]
                        if f["factor"] < len(refmodel.preconditioned_dims(run.hps[f["group"]], b.block.dim())):
                            keep.append(f)
                ev["faults"] = keep
        v = run.run()
    finally:
        seam.uninstall()
    kind = run.hps[0].kind
    run.probes[f"{kind}_run"] += 1
    nontrivial = sum(run.fault_counts.values()) > 0 or run.probes.get("fault_nonfinite_grad", 0) > 0
    abstract = [(kind, run.hps[0].tolerated_failures, run.hps[0].freq, tuple(fo.history[:12]), v.tag if v else None)]
    return Outcome(
        violation=v,
        probes=run.probes,
        faults=Counter(
            {
                "matrix_exception": run.fault_counts.get("exception", 0),
                "matrix_nonfinite": run.fault_counts.get("nan", 0) + run.fault_counts.get("inf", 0) + run.fault_counts.get("huge", 0),
                "eigh_lowprec_fail": run.fault_counts.get("lowprec", 0),
                "nonfinite_grad": run.probes.get("fault_nonfinite_grad", 0),
                "absent_grad": run.probes.get("absent_param_checked", 0),
            }
        ),
        nontrivial=nontrivial,
        abstract=abstract,
        steps=run.steps_done,
        digest=run.final_digest,
    )


def sample_view(trace: dict) -> dict:
    from .c01 import sample_view as sv

    d = sv(trace)
    d["fault_mode"] = trace.get("fault_mode")
    d["faults_first_steps"] = [e.get("faults") for e in trace["events"][:6] if e["op"] == "step"]
    d["tolerated_failures"] = trace["config"]["preconditioner"]["tolerated_failures"]
    return d

"""16-way process fan-out, budgets, watchdogs, evidence, known-findings matching (DESIGN 2.8, 2.9)."""

from __future__ import annotations

import hashlib
import importlib
import json
import os
import random
import subprocess
import sys
import time
import traceback
from collections import Counter
from dataclasses import dataclass, field
from typing import Any

VERIF = os.path.dirname(os.path.dirname(os.path.abspath(__file__)))
PY = sys.executable
KNOWN_FINDINGS = os.path.join(VERIF, "known_findings.json")


def derive_seed(verif_seed: int, prop: str, tier: str, run_index: int) -> int:
    h = hashlib.sha256(f"{verif_seed}|{prop}|{tier}|{run_index}".encode()).digest()
    return int.from_bytes(h[:8], "big") >> 1


@dataclass
class Outcome:
    violation: Any = None  # engine.Violation | None
    probes: Counter = field(default_factory=Counter)
    faults: Counter = field(default_factory=Counter)
    nontrivial: bool = True
    abstract: list = field(default_factory=list)  # abstract states visited (hashable reprs)
    steps: int = 0
    sched_events: int = 0
    interleaving: str | None = None
    extra_violations: list = field(default_factory=list)
    digest: str = ""  # digest of everything observable in the run (parameters, state, event log, scheduler choices)


def outcome_digest(out: "Outcome") -> str:
    v = out.violation.to_json() if out.violation is not None else None
    if v is not None:
        v = {"tag": v["tag"], "event": v["event"]}
    blob = json.dumps(
        [out.digest, sorted(out.probes.items()), sorted(out.faults.items()), out.steps, out.sched_events, out.interleaving, v, repr(out.abstract)],
        sort_keys=True,
        default=str,
    )
    return hashlib.sha256(blob.encode()).hexdigest()[:20]


def digests_main(argv: list[str]) -> int:
    """_digests <prop> <tier> <verif_seed> <start> <count>: print one 'run_index digest' line per run."""
    prop, tier, verif_seed, start, count = argv[0], argv[1], int(argv[2]), int(argv[3]), int(argv[4])
    mod = load_prop(prop)
    for run_index in range(start, start + count):
        run_seed = derive_seed(verif_seed, prop, tier, run_index)
        trace = mod.generate(random.Random(run_seed), tier)
        trace["run_seed"] = run_seed
        tdig = hashlib.sha256(json.dumps(trace, sort_keys=True, default=str).encode()).hexdigest()[:12]
        out = mod.execute(trace)
        print(f"DIGEST {run_index} {tdig} {outcome_digest(out)}", flush=True)
    return 0


def load_prop(prop: str):
    return importlib.import_module(f"simv.props.{prop.lower()}")


def load_known_findings(prop: str) -> list[dict]:
    if not os.path.exists(KNOWN_FINDINGS):
        return []
    with open(KNOWN_FINDINGS) as f:
        data = json.load(f)
    return [e for e in data.get("findings", []) if e["property"] == prop]


def match_known(violation_json: dict, findings: list[dict]) -> dict | None:
    """An *open* entry matches when the tag matches and every context key of the signature equals the recorded one.
    Fixed entries suppress nothing."""
    for e in findings:
        if e.get("status") != "open":
            continue
        sig = e["signature"]
        tags = sig["tag"] if isinstance(sig["tag"], list) else [sig["tag"]]
        if violation_json["tag"] not in tags:
            continue
        ctx = violation_json.get("context", {})
        ok = True
        for k, v in sig.get("context", {}).items():
            have = ctx.get(k)
            if isinstance(v, list):
                if have not in v:
                    ok = False
                    break
            elif have != v:
                ok = False
                break
        if ok:
            return e
    return None


# ---------------------------------------------------------------------------------------------------------------------
# worker


def worker_main(argv: list[str]) -> int:
    prop, tier, widx, nworkers, budget_s, verif_seed, out_path = argv[:7]
    max_runs = int(argv[7]) if len(argv) > 7 else 10**9
    widx, nworkers, verif_seed = int(widx), int(nworkers), int(verif_seed)
    budget_s = float(budget_s)
    import faulthandler

    faulthandler.enable()
    faulthandler.dump_traceback_later(budget_s + 240, exit=True)
    mod = load_prop(prop)
    findings = load_known_findings(prop)
    from . import minimize as mini

    t0 = time.monotonic()
    res: dict[str, Any] = {
        "worker": widx,
        "runs": 0,
        "nontrivial": 0,
        "steps": 0,
        "sched_events": 0,
        "probes": Counter(),
        "faults": Counter(),
        "abstract": set(),
        "interleavings": set(),
        "known": {},
        "violations": [],
        "harness_errors": [],
        "samples": [],
        "first_seed": None,
        "last_seed": None,
    }
    run_index = widx
    minimised = 0
    executed: list[int] = []  # run indices this process has executed so far (the process history of a later run)
    history_clean = True  # no minimiser executions in between (they are not part of the recorded history)
    while time.monotonic() - t0 < budget_s and res["runs"] < max_runs:
        run_seed = derive_seed(verif_seed, prop, tier, run_index)
        rng = random.Random(run_seed)
        executed.append(run_index)
        try:
            trace = mod.generate(rng, tier)
            trace["run_seed"] = run_seed
            trace["run_index"] = run_index
            out: Outcome = mod.execute(trace)
        except Exception as e:  # noqa: BLE001
            res["harness_errors"].append(
                {"run_index": run_index, "run_seed": run_seed, "error": repr(e)[:500], "tb": traceback.format_exc()[-3000:]}
            )
            if len(res["harness_errors"]) >= 3:
                break
            run_index += nworkers
            continue
        res["runs"] += 1
        if res["first_seed"] is None:
            res["first_seed"] = run_seed
        res["last_seed"] = run_seed
        res["nontrivial"] += 1 if out.nontrivial else 0
        res["steps"] += out.steps
        res["sched_events"] += out.sched_events
        res["probes"].update(out.probes)
        res["faults"].update(out.faults)
        if out.nontrivial:
            for a in out.abstract:
                res["abstract"].add(hashlib.sha256(repr(a).encode()).hexdigest()[:12])
        if out.interleaving:
            res["interleavings"].add(out.interleaving)
        if len(res["samples"]) < 2 and out.nontrivial and out.violation is None:
            res["samples"].append(mod.sample_view(trace) if hasattr(mod, "sample_view") else trace)
        for v in [out.violation] + list(out.extra_violations):
            if v is None:
                continue
            vj = v.to_json()
            kf = match_known(vj, findings)
            if kf is not None:
                k = res["known"].setdefault(kf["id"], {"count": 0, "example_seed": run_seed, "example": vj})
                k["count"] += 1
                continue
            entry = {"run_index": run_index, "run_seed": run_seed, "violation": vj, "trace": trace, "minimised": False, "_v": v}
            if history_clean:
                entry["process_history"] = {"property": prop, "tier": tier, "verif_seed": verif_seed, "run_indices": list(executed[:-1])}
                entry["orig_trace"], entry["orig_violation"] = trace, vj
            res["violations"].append(entry)
        run_index += nworkers
        if len(res["violations"]) >= 5:
            break
    # minimise after the search loop: candidate executions then cannot become part of a later run's process history
    for entry in res["violations"]:
        trace, vj, v = entry["trace"], entry["violation"], entry.pop("_v")
        if minimised < 2:
            minimised += 1
            try:
                def still(c: dict, _tag=vj["tag"], _ctx=vj.get("context", {})):
                    if hasattr(mod, "valid_trace") and not mod.valid_trace(c):
                        return None  # the candidate left the property's preconditions
                    o = mod.execute(c)
                    for vv in [o.violation] + list(o.extra_violations):
                        if vv is not None and vv.tag == _tag and match_known(vv.to_json(), findings) is None:
                            # an unexpected exception must stay the *same* exception while shrinking
                            if "exc_type" in _ctx and (
                                vv.context.get("exc_type") != _ctx.get("exc_type")
                                or str(vv.context.get("exc", ""))[:40] != str(_ctx.get("exc", ""))[:40]
                            ):
                                continue
                            return vv.event
                    return None

                small, execs = mini.minimize(trace, v.event, still, mini.Budget(150, 60.0))
                o2 = mod.execute(small)
                v2 = next(
                    (vv for vv in [o2.violation] + list(o2.extra_violations) if vv is not None and vv.tag == vj["tag"]),
                    None,
                )
                if v2 is not None:
                    entry["trace"] = small
                    entry["violation"] = v2.to_json()
                    entry["minimised"] = True
                    entry["minimise_execs"] = execs
            except Exception as e:  # noqa: BLE001
                entry["minimise_error"] = repr(e)[:300]
    res["wall_s"] = time.monotonic() - t0
    res["abstract"] = sorted(res["abstract"])
    res["interleavings"] = sorted(res["interleavings"])
    res["probes"] = dict(res["probes"])
    res["faults"] = dict(res["faults"])
    with open(out_path, "w") as f:
        json.dump(res, f)
    faulthandler.cancel_dump_traceback_later()
    return 0


# ---------------------------------------------------------------------------------------------------------------------
# parent


def _env() -> dict:
    env = dict(os.environ)
    env["PYTHONHASHSEED"] = "0"
    repo = env.get("VERIF_REPO")
    env["PYTHONPATH"] = (repo + os.pathsep if repo else "") + VERIF + os.pathsep + env.get("PYTHONPATH", "")
    env["OMP_NUM_THREADS"] = "1"
    env["MKL_NUM_THREADS"] = "1"
    env["PYTHONWARNINGS"] = "ignore"
    return env


def run_check(prop: str, tier: str, verif_seed: int, budget_s: float | None = None, nworkers: int | None = None) -> int:
    mod = load_prop(prop)
    t0 = time.monotonic()
    budget = float(os.environ.get("VERIF_BUDGET_S", 0) or 0) or budget_s or mod.BUDGET[tier]
    nworkers = nworkers or int(os.environ.get("VERIF_WORKERS", 0) or 0) or min(16, os.cpu_count() or 1)
    work = os.path.join(VERIF, ".work", f"{prop}-{tier}-{os.getpid()}")
    os.makedirs(work, exist_ok=True)
    os.makedirs(os.path.join(VERIF, "replays"), exist_ok=True)
    os.makedirs(os.path.join(VERIF, "evidence"), exist_ok=True)
    procs = []
    for w in range(nworkers):
        out = os.path.join(work, f"w{w}.json")
        log = open(os.path.join(work, f"w{w}.log"), "w")
        p = subprocess.Popen(
            [PY, "-B", "-m", "simv.cli", "_worker", prop, tier, str(w), str(nworkers), str(budget), str(verif_seed), out],
            cwd=VERIF,
            env=_env(),
            stdout=log,
            stderr=subprocess.STDOUT,
        )
        procs.append((p, out, log))
    harness_errors: list[str] = []
    deadline = time.monotonic() + budget + 300
    for p, out, log in procs:
        try:
            p.wait(timeout=max(1.0, deadline - time.monotonic()))
        except subprocess.TimeoutExpired:
            p.kill()
            harness_errors.append(f"worker timed out and was killed: {out}")
        log.close()
        if p.returncode not in (0, None) and not any(out in h for h in harness_errors):
            tail = ""
            try:
                tail = open(log.name).read()[-1500:]
            except OSError:
                pass
            harness_errors.append(f"worker exited with {p.returncode}: {out}\n{tail}")

    merged: dict[str, Any] = {
        "runs": 0,
        "nontrivial": 0,
        "steps": 0,
        "sched_events": 0,
        "probes": Counter(),
        "faults": Counter(),
        "abstract": set(),
        "interleavings": set(),
        "known": {},
        "violations": [],
        "samples": [],
        "worker_wall": [],
    }
    for p, out, log in procs:
        if not os.path.exists(out):
            if not any(out in h for h in harness_errors):
                harness_errors.append(f"worker produced no result: {out}")
            continue
        with open(out) as f:
            r = json.load(f)
        merged["runs"] += r["runs"]
        merged["nontrivial"] += r["nontrivial"]
        merged["steps"] += r["steps"]
        merged["sched_events"] += r["sched_events"]
        merged["probes"].update(r["probes"])
        merged["faults"].update(r["faults"])
        merged["abstract"].update(r["abstract"])
        merged["interleavings"].update(r["interleavings"])
        merged["worker_wall"].append(r["wall_s"])
        for k, v in r["known"].items():
            m = merged["known"].setdefault(k, {"count": 0, "example_seed": v["example_seed"], "example": v["example"]})
            m["count"] += v["count"]
        merged["violations"].extend(r["violations"])
        merged["samples"].extend(r["samples"][:1])
        for he in r["harness_errors"]:
            harness_errors.append(f"run {he['run_index']} seed {he['run_seed']}: {he['error']}\n{he['tb']}")

    # report violations: write replay files, verify each replay in a fresh interpreter
    findings = load_known_findings(prop)
    reported = []
    seen_tags: Counter = Counter()
    for v in sorted(merged["violations"], key=lambda e: (e["violation"]["tag"], len(json.dumps(e["trace"])))):
        tag = v["violation"]["tag"]
        seen_tags[tag] += 1
        if seen_tags[tag] > 3:
            continue
        path = os.path.join(VERIF, "replays", f"{prop}-{v['run_seed']}.json")
        trace = dict(v["trace"])
        trace["expect"] = {"tag": tag, "event": v["violation"]["event"]}
        trace["violation"] = v["violation"]
        with open(path, "w") as f:
            json.dump(trace, f, indent=1)
        rc = subprocess.run(
            [PY, "-B", "-m", "simv.cli", "replay", path, "--quiet"], cwd=VERIF, env=_env(), capture_output=True, text=True, timeout=900
        )
        if rc.returncode == 1 and f"tag={tag}" in rc.stdout:
            reported.append((v, path))
            continue
        # Not reproducible from the trace alone. The library may keep state across optimizer instances of one process
        # (a module- or class-level cache): then the execution is a function of the trace *and* of what the process ran
        # before. The worker recorded that history; replay it in a fresh interpreter and minimise it to a suffix.
        hist = v.get("process_history")
        via_history = None
        if hist and hist["run_indices"]:
            otag = v["orig_violation"]["tag"]
            hpath = os.path.join(VERIF, "replays", f"{prop}-{v['run_seed']}-history.json")

            def try_history(indices: list[int]) -> bool:
                t2 = dict(v["orig_trace"])
                t2["expect"] = {"tag": otag, "event": v["orig_violation"]["event"]}
                t2["violation"] = v["orig_violation"]
                t2["process_history"] = {**hist, "run_indices": indices}
                with open(hpath, "w") as f2:
                    json.dump(t2, f2, indent=1)
                r2 = subprocess.run(
                    [PY, "-B", "-m", "simv.cli", "replay", hpath, "--quiet"], cwd=VERIF, env=_env(), capture_output=True, text=True, timeout=1800
                )
                return r2.returncode == 1 and f"tag={otag}" in r2.stdout

            full = list(hist["run_indices"])
            if try_history(full):
                best = full
                t_min = time.monotonic()  # minimising the history is bounded: 90 s per violation
                k = 1
                while k < len(full) and time.monotonic() - t_min < 90.0:  # shortest reproducing suffix by doubling
                    if try_history(full[-k:]):
                        best = full[-k:]
                        break
                    k *= 2
                for i in range(min(len(best), 12)):  # then drop single earlier runs (bounded)
                    if time.monotonic() - t_min > 90.0:
                        break
                    cand = best[:i] + best[i + 1 :]
                    if len(best) > 1 and i < len(best) and try_history(cand):
                        best = cand
                if try_history(best):  # leaves the final file on disk
                    vv = dict(v)
                    vv["violation"] = dict(v["orig_violation"])
                    vv["violation"]["context"] = {
                        **vv["violation"].get("context", {}),
                        "needs_process_history": len(best),
                        "note_history": "reproduces only after earlier optimizer instances in the same process: state leaks across instances",
                    }
                    vv["minimised"] = len(best) < len(full)
                    via_history = (vv, hpath)
        if via_history is not None:
            reported.append(via_history)
        else:
            harness_errors.append(
                f"replay of {path} did not reproduce tag {tag} (exit {rc.returncode}): {rc.stdout[-500:]} {rc.stderr[-500:]}"
            )

    wall = time.monotonic() - t0
    runs = max(merged["runs"], 0)
    probes_required = getattr(mod, "REQUIRED_PROBES", {}).get(tier, [])
    probes_zero = [p for p in probes_required if merged["probes"].get(p, 0) == 0]
    evidence = {
        "property_id": prop,
        "tier": tier,
        "seed": verif_seed,
        "level": mod.LEVEL,
        "coverage": {
            "evaluations": runs,
            "distinct_nontrivial": len(merged["abstract"]),
            "rule": mod.RULE,
            "samples": merged["samples"][:3] or [{"note": "no violation-free non-trivial sample collected"}],
            "nontrivial_runs": merged["nontrivial"],
            "optimizer_steps_simulated": merged["steps"],
            "scheduler_events_simulated": merged["sched_events"],
            "simulated_time_note": "the library has no clock in its control flow; simulated time is the logical event count (optimizer steps and scheduler events)",
            "runs_per_hour": round(runs / max(wall, 1e-9) * 3600),
            "seeds_per_hour": round(runs / max(wall, 1e-9) * 3600),
            "workers": nworkers,
            "fault_kinds_fired": dict(merged["faults"]),
            "probes": dict(merged["probes"]),
            "probes_zero": probes_zero,
            "distinct_interleavings": len(merged["interleavings"]),
            "distinct_measure": getattr(mod, "DISTINCT_MEASURE", "distinct abstract states (see rule)"),
            "known_findings_confirmed": {k: v["count"] for k, v in merged["known"].items()},
            "components": getattr(mod, "COMPONENTS", {}),
            "harness_errors": len(harness_errors),
        },
        "assumptions": list(mod.ASSUMPTIONS),
        "wall_s": round(wall, 2),
        "violations": len(reported),
    }
    # Evidence describes the tree under /repo. Trial runs against a scratch copy (VERIF_REPO: mutants, seeded changes) must
    # not overwrite it.
    ev_path = os.path.join(VERIF, "evidence", f"{prop}.json")
    if os.environ.get("VERIF_REPO"):
        ev_path = os.path.join(work, f"evidence-{prop}.scratch.json")
        evidence["coverage"]["tree_under_test"] = os.environ["VERIF_REPO"]
    with open(ev_path, "w") as f:
        json.dump(evidence, f, indent=1, default=str)

    for k, v in sorted(merged["known"].items()):
        e = next(x for x in findings if x["id"] == k)
        print(f"KNOWN-FINDING: property={prop} {e['what_fails']} [id={k}, confirmed {v['count']}x, e.g. seed {v['example_seed']}]")
    for v, path in reported:
        print(f"VIOLATION property={prop} replay={path}")
        print(f"  tag={v['violation']['tag']} seed={v['run_seed']} minimised={v.get('minimised')} context={json.dumps(v['violation']['context'])[:600]}")
    for h in harness_errors[:5]:
        print("HARNESS-ERROR:", h[:3000])
    print(
        f"[{prop} {tier}] runs={runs} nontrivial={merged['nontrivial']} distinct={len(merged['abstract'])} steps={merged['steps']} "
        f"wall={wall:.1f}s violations={len(reported)} known={sum(v['count'] for v in merged['known'].values())} "
        f"probes_zero={probes_zero}"
    )
    try:
        import shutil

        shutil.rmtree(work, ignore_errors=True)
    except Exception:  # noqa: BLE001
        pass
    if reported:
        return 1  # (a violation that replays takes precedence; harness errors, if any, are printed above)
    if harness_errors:
        return 2
    if runs == 0:
        print("HARNESS-ERROR: no run completed")
        return 2
    return 0


def replay(path: str, quiet: bool = False) -> int:
    with open(path) as f:
        trace = json.load(f)
    prop = trace["property"]
    mod = load_prop(prop)
    hist = trace.get("process_history")
    if hist:
        # the runs this process executed before the failing one (regenerated from their seeds; outcomes are not judged)
        for idx in hist["run_indices"]:
            seed = derive_seed(int(hist["verif_seed"]), hist["property"], hist["tier"], int(idx))
            try:
                t = mod.generate(random.Random(seed), hist["tier"])
                t["run_seed"], t["run_index"] = seed, int(idx)
                mod.execute(t)
            except Exception:  # noqa: BLE001
                pass
    out: Outcome = mod.execute(trace)
    vs = [v for v in [out.violation] + list(out.extra_violations) if v is not None]
    expect = trace.get("expect")
    if not vs:
        print(f"REPLAY property={prop} no violation (expected {expect})")
        return 0
    for v in vs:
        print(f"REPLAY-VIOLATION property={prop} tag={v.tag} event={v.event}")
        if not quiet:
            print("  context=" + json.dumps(v.context)[:2000])
    if expect and not any(v.tag == expect["tag"] for v in vs):
        return 3
    return 1

"""Seeded generators: shapes, configurations, parameter groups, histories (DESIGN section 4, shared bounds).

Everything is drawn from the random.Random passed in; nothing else is a source of nondeterminism.
"""

from __future__ import annotations

import copy
import random
from typing import Any

from . import spec

DIMS = [1, 1, 2, 2, 3, 3, 4, 4, 5, 6, 7, 8, 9, 12, 16]
MAX_DIMS = [1, 2, 3, 3, 4, 4, 5, 8, 16, 1024, 1024]


def f32r(rng: random.Random, lo: float, hi: float) -> float:
    return spec.f32(lo + (hi - lo) * rng.random())


def gen_shape(rng: random.Random, max_numel: int = 320, min_order: int = 0, max_order: int = 4) -> list[int]:
    for _ in range(50):
        order = rng.choice([o for o in [0, 1, 1, 2, 2, 2, 2, 3, 3, 4] if min_order <= o <= max_order])
        shape = [rng.choice(DIMS) for _ in range(order)]
        n = 1
        for s in shape:
            n *= s
        if n <= max_numel:
            return shape
    return [rng.choice(DIMS)]


def gen_params(rng: random.Random, n_params: int, dtype: str, repeat_shapes: bool = True, **kw: Any) -> list[dict]:
    params: list[dict] = []
    for _ in range(n_params):
        if params and repeat_shapes and rng.random() < 0.35:
            shape = list(rng.choice(params)["shape"])  # equal-shaped parameters: misalignment raises no shape error
        else:
            shape = gen_shape(rng, **kw)
        params.append(
            {
                "shape": shape,
                "dtype": dtype,
                "init_seed": rng.randrange(1 << 30),
                "init_scale": rng.choice([1.0, 1.0, 1.0, 0.1, 3.0]),
            }
        )
    return params


def gen_grafting(rng: random.Random, allow_none: bool = True) -> dict | None:
    t = rng.choice((["none"] if allow_none else []) + ["sgd", "adagrad", "rmsprop", "adam"])
    if t == "none":
        return None
    if t == "sgd":
        return {"type": "sgd"}
    eps = rng.choice([1e-10, 1e-8, 1e-5, 1e-3])
    if t == "adagrad":
        return {"type": "adagrad", "epsilon": eps}
    return {"type": t, "epsilon": eps, "beta2": rng.choice([0.9, 0.99, 0.999, 1.0, round(rng.uniform(0.5, 0.999), 3)])}


def gen_solver(rng: random.Random, kind: str, simple: bool = False) -> dict:
    if kind == "soap":
        if rng.random() < 0.5:
            return {"type": "eigh", "retry": rng.random() < 0.8}
        return {
            "type": "qr",
            "max_iterations": rng.choice([1, 1, 2, 3, 5, 10, 50]),
            "tolerance": rng.choice([1e-5, 1e-3, 1e-8, 0.0, 0.1]),
        }
    r = rng.random()
    if simple or r < 0.7:
        return {
            "type": "eigen",
            "retry": rng.random() < 0.8,
            "exponent_multiplier": rng.choice([1.0, 1.0, 1.0, 1.0, 0.5, 2.0, 1.82]),
            "enhance_stability": rng.random() < 0.2,
        }
    if r < 0.85:
        return {"type": "newton", "max_iterations": rng.choice([100, 200]), "tolerance": rng.choice([1e-6, 1e-8])}
    return {
        "type": "higher_order",
        "max_iterations": 100,
        "tolerance": rng.choice([1e-8, 1e-10]),
        "order": rng.choice([2, 3, 3, 4]),
        "rel_epsilon": 0.0,
    }


def gen_config(
    rng: random.Random,
    kind: str = "shampoo",
    allow_lists: bool = True,
    precond_dtypes: tuple[str, ...] = ("float32", "float32", "float64"),
    simple_solver: bool = False,
) -> dict:
    c: dict[str, Any] = {}
    c["lr"] = rng.choice([0.0] + [f32r(rng, 1e-3, 0.5) for _ in range(9)])
    b1 = rng.choice([0.0, 0.0, 0.5, 0.9, 0.9, round(rng.uniform(0.01, 0.99), 3)])
    b2 = rng.choice([1.0, 1.0, 0.9, 0.99, 0.999, round(rng.uniform(0.5, 0.999), 3)])
    c["betas"] = [b1, b2]
    c["beta3"] = rng.choice([-1.0, -1.0, b1, round(rng.uniform(0.0, 0.99), 3), 0.0])
    c["epsilon"] = rng.choice([1e-12, 1e-8, 1e-6, 1e-4, 1e-2, 1e-1, 1e-1, 1.0])
    c["momentum"] = rng.choice([0.0, 0.0, 0.5, 0.9, round(rng.uniform(0.01, 0.99), 3)])
    c["dampening"] = rng.choice([0.0, 0.0, round(rng.uniform(0.0, 0.9), 3)])
    c["use_nesterov"] = rng.random() < 0.4
    c["weight_decay"] = rng.choice([0.0, 0.0, 1e-2, 1e-1, round(rng.uniform(0.0, 0.5), 4)])
    c["use_decoupled_weight_decay"] = rng.random() < 0.5
    c["use_bias_correction"] = rng.random() < 0.6
    c["grafting"] = gen_grafting(rng)
    c["use_merge_dims"] = rng.random() < 0.6
    c["max_preconditioner_dim"] = rng.choice(MAX_DIMS)
    freq = rng.choice([1, 1, 2, 3, 4, 5])
    c["precondition_frequency"] = freq
    c["start_preconditioning_step"] = rng.choice([-1, -1, freq, freq + 1, freq + rng.randrange(0, 7), 1000])
    ignored: list[int] = []
    if rng.random() < 0.2:
        ignored = sorted(rng.sample([0, 1, 2, 3], rng.choice([1, 1, 2, 3, 4])))
    if ignored:
        c["inv_root_override"] = 0
    else:
        r = rng.random()
        if r < 0.6:
            c["inv_root_override"] = 0
        elif r < 0.8 or not allow_lists:
            c["inv_root_override"] = rng.choice([1, 2, 3, 4, 8])
        else:
            c["inv_root_override"] = [rng.choice([1, 2, 3, 4, 6, 8]) for _ in range(rng.choice([1, 2, 3, 4, 5]))]
    c["preconditioner_dtype"] = rng.choice(precond_dtypes)
    c["preconditioner"] = {
        "kind": kind,
        "solver": gen_solver(rng, kind, simple=simple_solver),
        "tolerated_failures": 3,
        "ignored_dims": ignored,
    }
    c["pt2"] = None
    return spec.full_config(c)


OVERRIDABLE = [
    "lr",
    "betas",
    "momentum",
    "weight_decay",
    "precondition_frequency",
    "use_nesterov",
    "max_preconditioner_dim",
    "use_decoupled_weight_decay",
    "epsilon",
    "dampening",
    "use_bias_correction",
    "use_merge_dims",
    "grafting",
    "beta3",
    "start_preconditioning_step",
]


def gen_groups(rng: random.Random, n_params: int, config: dict, max_groups: int = 3) -> list[dict]:
    n_groups = min(n_params, rng.choice([1, 1, 1, 2, 2, 3]), max_groups)
    idx = list(range(n_params))
    rng.shuffle(idx)
    cuts = sorted(rng.sample(range(1, n_params), n_groups - 1)) if n_groups > 1 else []
    parts = [sorted(idx[a:b]) for a, b in zip([0] + cuts, cuts + [n_params])]
    parts.sort()
    groups = []
    res = spec.resolved_config(config)
    for gi, part in enumerate(parts):
        ov: dict[str, Any] = {}
        if gi > 0 or (n_groups > 1 and rng.random() < 0.3):
            other = gen_config(rng, kind=config["preconditioner"]["kind"])
            for key in rng.sample(OVERRIDABLE, rng.choice([1, 2, 3, 4])):
                if key == "beta3":
                    b1 = ov.get("betas", res["betas"])[0]
                    ov["beta3"] = rng.choice([b1, round(rng.uniform(0.0, 0.99), 3)])
                elif key == "start_preconditioning_step":
                    f = ov.get("precondition_frequency", res["precondition_frequency"])
                    ov[key] = f + rng.randrange(0, 5)
                elif key == "momentum":
                    # momentum buffers exist iff momentum != 0 at construction; both kinds are legal overrides
                    ov[key] = other["momentum"]
                else:
                    ov[key] = copy.deepcopy(other[key])
        groups.append({"params": part, "overrides": ov})
    return groups


GRAD_KINDS = ["gauss"] * 10 + ["rank1", "rank1", "onehot", "zero", "ones"]


def gen_grad(rng: random.Random, prev: list | None = None) -> list:
    if prev is not None and rng.random() < 0.08:
        return list(prev)  # repeated gradient
    kind = rng.choice(GRAD_KINDS)
    scale = rng.choice([1.0, 1.0, 1.0, 1.0, 1e-3, 1e-1, 10.0, 1e3])
    return [rng.randrange(1 << 30), kind, scale]


def gen_presence_style(rng: random.Random, n_params: int) -> dict:
    style = rng.choice(["all", "all", "random", "random", "flip", "sticky", "adversarial"])
    never = set()
    if n_params > 1 and rng.random() < 0.2:
        never = {rng.randrange(n_params)}
    return {"style": style, "p": rng.choice([0.5, 0.7, 0.9]), "never": sorted(never), "all_absent": rng.choice([0.0, 0.0, 0.1, 0.2])}


def gen_mask(rng: random.Random, style: dict, n_params: int, step: int, prev: list[bool] | None) -> list[bool]:
    s = style["style"]
    if rng.random() < style["all_absent"]:
        return [False] * n_params
    if s == "all":
        m = [True] * n_params
    elif s == "random":
        m = [rng.random() < style["p"] for _ in range(n_params)]
    elif s == "flip":
        m = [((step + i) % 2 == 0) for i in range(n_params)]
    elif s == "sticky":
        m = list(prev) if prev is not None and rng.random() < 0.7 else [rng.random() < style["p"] for _ in range(n_params)]
    else:  # adversarial: change exactly one parameter's presence every step
        m = list(prev) if prev is not None else [True] * n_params
        j = rng.randrange(n_params)
        m[j] = not m[j]
    for j in style["never"]:
        m[j] = False
    return m


def gen_history(
    rng: random.Random,
    params: list[dict],
    groups: list[dict],
    config: dict,
    n_events: int,
    hparam_rate: float = 0.1,
    style: dict | None = None,
    finite_only: bool = True,
    poke_rate: float = 0.0,
) -> list[dict]:
    n = len(params)
    style = style or gen_presence_style(rng, n)
    events: list[dict] = []
    prev_mask: list[bool] | None = None
    prev_grads: list[list | None] = [None] * n
    step = 0
    # bias interesting steps: a parameter disappearing exactly at the switch / a refresh
    res = [spec.effective_group_config(config, g.get("overrides", {})) for g in groups]
    while len(events) < n_events:
        if events and poke_rate and rng.random() < poke_rate:
            # the user rescales one parameter in place between two steps
            events.append({"op": "poke", "param": rng.randrange(n), "scale": rng.choice([0.5, 0.9, 1.25, -1.0, 2.0])})
            continue
        if events and rng.random() < hparam_rate:
            if len(groups) > 1 and rng.random() < 0.4:
                # a learning-rate scheduler writes the same (or the same scaled) value into every group
                val = rng.choice([0.0, f32r(rng, 1e-3, 0.5), f32r(rng, 1e-3, 0.5)])
                same = rng.random() < 0.6
                for gi in range(len(groups)):
                    events.append({"op": "set_hparam", "group": gi, "key": "lr", "value": val if same else spec.f32(val * (gi + 1) / 2)})
                continue
            gi = rng.randrange(len(groups))
            key = rng.choice(["lr", "lr", "weight_decay", "momentum"])
            if key == "lr":
                val = rng.choice([0.0, f32r(rng, 1e-3, 0.5), f32r(rng, 1e-3, 0.5)])
            elif key == "weight_decay":
                val = rng.choice([0.0, 1e-2, round(rng.uniform(0.0, 0.3), 4)])
            else:
                if res[gi]["momentum"] == 0.0:
                    continue
                val = rng.choice([0.5, 0.9, round(rng.uniform(0.05, 0.95), 3)])
            events.append({"op": "set_hparam", "group": gi, "key": key, "value": val})
            continue
        mask = gen_mask(rng, style, n, step, prev_mask)
        g: list = []
        for i in range(n):
            if mask[i]:
                gr = gen_grad(rng, prev_grads[i])
                prev_grads[i] = gr
                g.append(gr)
            else:
                g.append(None)
        events.append({"op": "step", "g": g})
        prev_mask = mask
        step += 1
    return events


def gen_single_trace(
    rng: random.Random,
    prop: str,
    tier: str,
    kind: str = "shampoo",
    param_dtypes: tuple[str, ...] = ("float32", "float32", "float32", "float64", "float64", "bfloat16"),
    max_params: int = 5,
    **cfg_kw: Any,
) -> dict:
    config = gen_config(rng, kind=kind, **cfg_kw)
    dtype = rng.choice(param_dtypes)
    if dtype == "bfloat16":
        config["preconditioner_dtype"] = rng.choice(["float32", "float32", "float64"])
    sv = config["preconditioner"]["solver"]
    if sv["type"] in ("eigen", "eigh") and rng.random() < 0.08:
        # CPU eigh has no bfloat16 kernel, so bfloat16 factor matrices only work through the double-precision retry
        # (DESIGN section 7): the factors are kept in bfloat16, the decomposition runs in float64
        sv["retry"] = True
        config["preconditioner_dtype"] = "bfloat16"
    n_params = rng.choice([1, 1, 2, 2, 3, 3, 4, 5][: max(1, min(8, 2 * max_params - 2))])
    params = gen_params(rng, n_params, dtype)
    groups = gen_groups(rng, n_params, config)
    max_ev = 60 if tier == "thorough" else 24
    n_events = rng.choice([1, 2, 3, 4, 6, 8, 10, 12, 16, 20, max_ev])
    events = gen_history(rng, params, groups, config, n_events, poke_rate=0.03)
    return {
        "schema": 1,
        "property": prop,
        "engine": "single",
        "config": config,
        "groups": groups,
        "params": params,
        "world": None,
        "events": events,
    }

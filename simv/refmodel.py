"""Float64 reference model R of the documented Distributed Shampoo step (DESIGN 3.1), written from the README / docstrings.

R works per block, on the *observed* block layout, and maps (pre-state, event) -> expected post-state.
It never calls code from the repository under test.
"""

from __future__ import annotations

import math
from dataclasses import dataclass, field
from typing import Any

import torch

from . import spec

F64 = torch.float64


# ---------------------------------------------------------------------------------------------------------------------
# block geometry


def block_flat_indices(block: torch.Tensor, param: torch.Tensor) -> torch.Tensor:
    """Flat indices (into param.view(-1), param contiguous) of the block's elements, in the block's own iteration
    order; computed from (storage offset, shape, stride) only."""
    idx = _storage_positions(block, block.storage_offset() - param.storage_offset())
    if param.dim() >= 2 and not param.is_contiguous():
        # a dense parameter in another memory layout: storage position -> logical (row-major) index of the parameter;
        # positions that hold no element of the parameter map to -1
        pos = _storage_positions(param, 0).reshape(-1)
        size = int(max(int(pos.max()) if pos.numel() else 0, int(idx.max()) if idx.numel() else 0)) + 1
        inv = torch.full((size,), -1, dtype=torch.int64)
        inv[pos] = torch.arange(pos.numel(), dtype=torch.int64)
        neg = idx < 0
        idx = inv[idx.clamp(min=0)]
        idx[neg] = -1
    return idx


def _storage_positions(t: torch.Tensor, off: int) -> torch.Tensor:
    idx = torch.full(tuple(t.shape), off, dtype=torch.int64)
    for d, (n, s) in enumerate(zip(t.shape, t.stride())):
        view = [1] * t.dim()
        view[d] = n
        idx = idx + (torch.arange(n, dtype=torch.int64) * s).view(view)
    return idx


# ---------------------------------------------------------------------------------------------------------------------
# hyper-parameters of one group (resolved)


@dataclass
class HP:
    lr: float
    beta1: float
    beta2: float
    beta3: float
    epsilon: float
    momentum: float
    dampening: float
    weight_decay: float
    decoupled: bool
    nesterov: bool
    bias_correction: bool
    freq: int
    start: int
    inv_root_override: Any
    grafting: dict | None
    kind: str  # shampoo | soap
    exponent_multiplier: float
    ignored_dims: tuple[int, ...]
    solver: dict
    tolerated_failures: int
    max_dim: int
    merge: bool
    precond_dtype: torch.dtype
    momentum_at_construction: float = 0.0

    @staticmethod
    def from_config(c: dict) -> "HP":
        pc = c["preconditioner"]
        return HP(
            lr=c["lr"],
            beta1=c["betas"][0],
            beta2=c["betas"][1],
            beta3=c["beta3"],
            epsilon=c["epsilon"],
            momentum=c["momentum"],
            dampening=c["dampening"],
            weight_decay=c["weight_decay"],
            decoupled=c["use_decoupled_weight_decay"],
            nesterov=c["use_nesterov"],
            bias_correction=c["use_bias_correction"],
            freq=c["precondition_frequency"],
            start=c["start_preconditioning_step"],
            inv_root_override=c["inv_root_override"],
            grafting=c["grafting"],
            kind=pc["kind"],
            exponent_multiplier=pc["solver"].get("exponent_multiplier", 1.0) if pc["solver"]["type"] == "eigen" else 1.0,
            ignored_dims=tuple(pc.get("ignored_dims", [])),
            solver=pc["solver"],
            tolerated_failures=pc.get("tolerated_failures", 3),
            max_dim=c["max_preconditioner_dim"],
            merge=c["use_merge_dims"],
            precond_dtype=spec.DTYPES[c["preconditioner_dtype"]],
            momentum_at_construction=c["momentum"],
        )

    def is_refresh(self, t: int) -> bool:
        return t == self.start or (t > self.start and t % self.freq == 0)

    def root_for_order(self, order: int) -> int:
        default = 2 * order if self.kind == "shampoo" else 2
        ov = self.inv_root_override
        if isinstance(ov, (list, tuple)):
            return default if order >= len(ov) else ov[order]
        return default if ov == 0 else ov

    def bc2(self, t: int) -> float:
        return 1.0 - self.beta2**t if (self.bias_correction and self.beta2 < 1.0) else 1.0

    def graft_beta2(self) -> float:
        g = self.grafting
        return 1.0 if g["type"] == "adagrad" else g["beta2"]

    def graft_bc2(self, t: int) -> float:
        g = self.grafting
        if g["type"] == "adam" and g["beta2"] < 1.0:
            return 1.0 - g["beta2"] ** t
        return 1.0


# ---------------------------------------------------------------------------------------------------------------------
# block state (float64 copies of what the optimizer stores)


@dataclass
class BlockState:
    factors: list[torch.Tensor] = field(default_factory=list)
    inv: list[torch.Tensor] = field(default_factory=list)  # inverse roots (shampoo) or eigenvector matrices (soap)
    diag_flags: list[bool] = field(default_factory=list)
    corrected: torch.Tensor | None = None
    adagrad: torch.Tensor | None = None
    momentum: torch.Tensor | None = None
    filtered: torch.Tensor | None = None
    raw: dict = field(default_factory=dict)  # the original tensors (for dtype / bitwise checks)


def read_block_state(block_state: dict) -> BlockState:
    """Read one block's state through the checkpoint-visible structure optimizer.state[param][block_key]."""
    bs = BlockState()

    def get(t):
        return spec._local(t).detach().to(F64).clone()

    sh = block_state.get("shampoo")
    if sh is not None:
        bs.factors = [get(t) for t in sh.factor_matrices]
        bs.diag_flags = [bool(spec._local(t)) for t in sh.is_factor_matrices_diagonal]
        if hasattr(sh, "inv_factor_matrices"):
            bs.inv = [get(t) for t in sh.inv_factor_matrices]
            bs.raw["inv"] = [spec._local(t).detach().clone() for t in sh.inv_factor_matrices]
        else:
            bs.inv = [get(t) for t in sh.factor_matrices_eigenvectors]
            bs.raw["inv"] = [spec._local(t).detach().clone() for t in sh.factor_matrices_eigenvectors]
            bs.corrected = get(sh.corrected_eigenvalues)
            bs.raw["corrected"] = spec._local(sh.corrected_eigenvalues).detach().clone()
        bs.raw["factors"] = [spec._local(t).detach().clone() for t in sh.factor_matrices]
    for key, attr in (("adagrad", "adagrad"), ("momentum", "momentum"), ("filtered_grad", "filtered")):
        if key in block_state:
            setattr(bs, attr, get(block_state[key]))
            bs.raw[attr] = spec._local(block_state[key]).detach().clone()
    return bs


# ---------------------------------------------------------------------------------------------------------------------
# algebra


def mode_gram(G: torch.Tensor, k: int) -> torch.Tensor:
    """G_(k) G_(k)^T : contraction over all modes except k."""
    order = G.dim()
    dims = [d for d in range(order) if d != k]
    return torch.tensordot(G, G, dims=(dims, dims))


def mode_apply(G: torch.Tensor, M: torch.Tensor, k: int) -> torch.Tensor:
    """(M x_k G): out[.., i, ..] = sum_j M[i, j] G[.., j, ..]"""
    out = torch.tensordot(M, G, dims=([1], [k]))
    return torch.movedim(out, 0, k)


def spectral_inverse_root(A: torch.Tensor, epsilon: float, exponent: float) -> tuple[torch.Tensor, float]:
    """(A + eps I)^(-exponent) in float64 via eigh, and the 2-norm condition number of A + eps I."""
    A = 0.5 * (A + A.T)
    n = A.shape[0]
    lam, Q = torch.linalg.eigh(A + epsilon * torch.eye(n, dtype=F64))
    lam_min = float(lam.min())
    lam_max = float(lam.max())
    if lam_min <= 0.0:
        return torch.full_like(A, float("nan")), float("inf")
    X = (Q * lam.pow(-exponent).unsqueeze(0)) @ Q.T
    return X, lam_max / lam_min


@dataclass
class Expected:
    W: torch.Tensor
    factors: list[torch.Tensor]
    corrected: torch.Tensor | None
    adagrad: torch.Tensor | None
    momentum: torch.Tensor | None
    filtered: torch.Tensor | None
    refresh: bool
    direction: torch.Tensor  # P before decay / momentum (for norm clauses)
    graft_direction: torch.Tensor | None
    shampoo_direction: torch.Tensor | None  # un-rescaled preconditioned direction (None during grafted warm-up)
    use_basis: bool = False
    slack: float = 0.0  # relative perturbation from bias-correction scalars carried in single precision
    asym: float = 0.0  # relative difference of the direction under the two contraction conventions of a stored root
    amplification: float = 1.0  # running-error amplification of the contraction that produced the direction (>= 1)
    scales: dict = field(default_factory=dict)  # magnitude of the operands of each recurrence (cancellation guard)


def graft_direction(hp: HP, Gbar: torch.Tensor, V_new: torch.Tensor | None, t: int) -> torch.Tensor:
    g = hp.grafting
    if g["type"] == "sgd":
        return Gbar
    return Gbar / ((V_new / hp.graft_bc2(t)).sqrt() + g["epsilon"])


def preconditioned_dims(hp: HP, order: int) -> list[int]:
    return [d for d in range(order) if d not in hp.ignored_dims]


def _amax(t: torch.Tensor | None) -> float:
    if t is None or t.numel() == 0:
        return 0.0
    v = float(t.abs().max())
    return v if math.isfinite(v) else 0.0


def _bc_slack(bc: float, t: int = 1) -> float:
    """Relative perturbation of a bias-correction term 1 - beta^t that is carried in single precision: beta is rounded
    to float32 before the power (relative error t * 2^-24 in beta^t) and the difference is rounded again."""
    return 0.0 if bc == 1.0 else (t + 2) * 2.0**-22 / abs(bc)


def expected_step(
    hp: HP,
    t: int,
    W: torch.Tensor,
    G_in: torch.Tensor,
    pre: BlockState,
    post_inv: list[torch.Tensor],
    post_corrected: torch.Tensor | None = None,
) -> Expected:
    """One documented step of one block that has a gradient at group step t (t = counter value *after* increment).

    W, G_in: float64 block of the parameter / gradient. pre: state before the step.
    post_inv: the inverse roots / eigenbases actually stored after the step (validated separately; DESIGN 3.1).

    Alongside every quantity its running-error magnitude (the same expression over absolute values) is carried, so
    that comparisons can be made relative to the operands and never to a cancelled result.
    """
    order = W.dim()
    pdims = preconditioned_dims(hp, order)
    scales: dict[str, Any] = {}
    slack = 0.0
    G = G_in
    Gabs = G_in.abs()
    if hp.weight_decay != 0.0 and not hp.decoupled:
        G = G + hp.weight_decay * W
        Gabs = Gabs + hp.weight_decay * W.abs()

    # Kronecker factors
    factors = []
    fscale = []
    for L, k in zip(pre.factors, pdims):
        gram = mode_gram(G, k)
        factors.append(hp.beta2 * L + (1.0 - hp.beta2) * gram if hp.beta2 != 1.0 else L + gram)
        fscale.append(max(_amax(L), _amax(mode_gram(Gabs, k))))
    scales["factors"] = fscale

    # grafting accumulator
    V_new = None
    if hp.grafting is not None and hp.grafting["type"] != "sgd":
        b2g = hp.graft_beta2()
        V_new = pre.adagrad + G * G if b2g == 1.0 else b2g * pre.adagrad + (1.0 - b2g) * G * G
        scales["adagrad"] = max(_amax(pre.adagrad), _amax(Gabs) ** 2)

    refresh = hp.is_refresh(t)
    bc2 = hp.bc2(t)

    # SOAP: corrected eigenvalues in the basis valid after this step's refresh
    corrected = None
    use_basis = False
    if hp.kind == "soap":
        use_basis = len(post_inv) > 0 and bool(post_inv[0].any())
        Grot = G
        Grot_abs = Gabs
        if use_basis:
            for Q, k in zip(post_inv, pdims):
                Grot = mode_apply(Grot, Q.T, k)
                Grot_abs = mode_apply(Grot_abs, Q.T.abs(), k)
        sq = Grot * Grot
        corrected = hp.beta2 * pre.corrected + (1.0 - hp.beta2) * sq if hp.beta2 != 1.0 else pre.corrected + sq
        scales["corrected"] = max(_amax(pre.corrected), _amax(Grot_abs) ** 2)

    # filtered gradient
    filtered = None
    if hp.beta1 != 0.0:
        filtered = hp.beta1 * pre.filtered + (1.0 - hp.beta1) * G
        Gbar = hp.beta3 * pre.filtered + (1.0 - hp.beta3) * G
        Gbar_abs = hp.beta3 * pre.filtered.abs() + (1.0 - hp.beta3) * Gabs
        scales["filtered"] = max(_amax(pre.filtered), _amax(Gabs))
        if hp.bias_correction:
            bc1 = 1.0 - hp.beta3 * hp.beta1 ** (t - 1)
            Gbar = Gbar / bc1
            Gbar_abs = Gbar_abs / bc1
            slack += _bc_slack(bc1, t)
    else:
        Gbar = G
        Gbar_abs = Gabs

    # direction
    amplification = 1.0
    asym = 0.0
    shampoo_dir = None
    gdir = None
    gdir_abs = None
    if hp.grafting is not None:
        gdir = graft_direction(hp, Gbar, V_new, t)
        gdir_abs = graft_direction(hp, Gbar_abs, V_new, t)
        slack += 0.5 * _bc_slack(hp.graft_bc2(t), t) if hp.grafting["type"] != "sgd" else 0.0
    if t < hp.start and hp.grafting is not None:
        P = gdir
        Pabs = gdir_abs
    else:
        if hp.kind == "shampoo":
            # The stored roots are symmetric only up to the round-off of the routine that produced them; the
            # documented product L^-1/r G R^-1/r does not say which index is contracted, so both conventions are
            # evaluated and their difference is returned as slack (asym).
            P = Gbar
            Palt = Gbar
            Pabs = Gbar_abs
            for X, k in zip(post_inv, pdims):
                P = mode_apply(P, X.T, k)
                Palt = mode_apply(Palt, X, k)
                Pabs = mode_apply(Pabs, X.abs(), k)
            if _amax(P) > 0:
                asym = _amax(P - Palt) / _amax(P)
        else:
            root = hp.root_for_order(order)
            R = Gbar
            Rabs = Gbar_abs
            if use_basis:
                for Q, k in zip(post_inv, pdims):
                    R = mode_apply(R, Q.T, k)
                    Rabs = mode_apply(Rabs, Q.T.abs(), k)
            # like the stored bases, the stored corrected eigenvalues are taken as they are for the direction (they are
            # compared separately): where the rotated gradient cancels to round-off level, the accumulator's *relative*
            # error is unbounded and would otherwise leak into the parameter comparison
            den_src = post_corrected if post_corrected is not None else corrected
            den = (den_src / bc2 + hp.epsilon).pow(1.0 / root)
            slack += _bc_slack(bc2, t) / root
            R = R / den
            Rabs = Rabs / den
            if use_basis:
                for Q, k in zip(post_inv, pdims):
                    R = mode_apply(R, Q, k)
                    Rabs = mode_apply(Rabs, Q.abs(), k)
            P = R
            Pabs = Rabs
        shampoo_dir = P
        if hp.grafting is not None:
            # P <- P * |gdir| / (|P| + 1e-16): the rescaled direction inherits the relative error of P and of gdir
            pn = float(torch.linalg.vector_norm(P))
            pan = float(torch.linalg.vector_norm(Pabs))
            gn = float(torch.linalg.vector_norm(gdir))
            gan = float(torch.linalg.vector_norm(gdir_abs))
            factor = gn / (pn + 1e-16)
            P = P * factor
            rel = (pan / pn if pn > 0 else 1.0) + (gan / gn if gn > 0 else 1.0)
            Pabs = Pabs * factor + P.abs() * rel
    pa, pm = _amax(Pabs), _amax(P)
    amplification = max(1.0, pa / pm) if pm > 0.0 else (1.0 if pa == 0.0 else float("inf"))
    direction = P

    if hp.weight_decay != 0.0 and hp.decoupled:
        P = P + hp.weight_decay * W
        Pabs = Pabs + hp.weight_decay * W.abs()

    momentum = None
    if pre.momentum is not None:
        momentum = pre.momentum
    if hp.momentum != 0.0:
        momentum = hp.momentum * pre.momentum + (1.0 - hp.dampening) * P
        Mabs = hp.momentum * pre.momentum.abs() + (1.0 - hp.dampening) * Pabs
        scales["momentum"] = _amax(Mabs)
        if hp.nesterov:
            P = (1.0 - hp.dampening) * P + hp.momentum * momentum
            Pabs = (1.0 - hp.dampening) * Pabs + hp.momentum * Mabs
        else:
            P = momentum
            Pabs = Mabs

    lr = spec.f32(hp.lr)
    W_new = W - lr * P
    scales["W"] = _amax(W.abs() + lr * Pabs)
    return Expected(
        W=W_new,
        factors=factors,
        corrected=corrected,
        adagrad=V_new,
        momentum=momentum,
        filtered=filtered,
        refresh=refresh,
        direction=direction,
        graft_direction=gdir,
        shampoo_direction=shampoo_dir,
        use_basis=use_basis,
        amplification=amplification,
        asym=asym,
        slack=slack,
        scales=scales,
    )


# ---------------------------------------------------------------------------------------------------------------------
# tolerances (DESIGN 3.5)

RTOL = {torch.float64: 1e-9, torch.float32: 2e-4, torch.bfloat16: 5e-2, torch.float16: 5e-3}


def rel_gap(actual: torch.Tensor, expected: torch.Tensor, extra_scale: float = 0.0) -> float:
    """max-norm gap relative to the operands' size."""
    a = actual.to(F64)
    e = expected.to(F64)
    if a.numel() == 0:
        return 0.0
    finite = torch.isfinite(a) & torch.isfinite(e)
    if not bool(finite.all()):
        same = (torch.isnan(a) & torch.isnan(e)) | (a == e) | finite
        if not bool(same.all()):
            return float("inf")
        a = torch.where(finite, a, torch.zeros_like(a))
        e = torch.where(finite, e, torch.zeros_like(e))
    scale = max(float(e.abs().max()), float(a.abs().max()), extra_scale, 1e-300)
    return float((a - e).abs().max()) / scale


def inverse_root_bound(n: int, unit: float, cond: float, root_exponent_inv: float, solver: dict) -> float:
    """C * n * u * cond / root + solver tolerance (C = 100)."""
    b = 100.0 * n * unit * cond * root_exponent_inv
    t = solver["type"]
    if t == "newton":
        b += 10.0 * solver.get("tolerance", 1e-6)
    elif t == "higher_order":
        b += 10.0 * max(solver.get("tolerance", 1e-8), 1e-12)
    return b


def orthonormality_gap(Q: torch.Tensor) -> float:
    n = Q.shape[0]
    return float((Q.T @ Q - torch.eye(n, dtype=Q.dtype)).abs().max())


def offdiag_ratio(Q: torch.Tensor, A: torch.Tensor) -> float:
    """|offdiag(Q^T A Q)|_max / |A|_2-ish scale"""
    M = Q.T @ A @ Q
    off = M - torch.diag(torch.diagonal(M))
    scale = max(float(A.abs().max()) * A.shape[0], 1e-300)
    return float(off.abs().max()) / scale


def is_finite(t: torch.Tensor) -> bool:
    return bool(torch.isfinite(t).all())


def safe_float(x: float) -> float:
    return x if math.isfinite(x) else 1e308

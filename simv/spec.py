"""Trace <-> real objects: configuration dicts, parameters, gradients, optimizers, and a state walker.

A trace is plain JSON (DESIGN appendix D). Execution is a pure function of the trace and the code under test.
"""

from __future__ import annotations

import copy
import hashlib
import json
from typing import Any, Iterator

import torch

DTYPES = {"float32": torch.float32, "float64": torch.float64, "bfloat16": torch.bfloat16, "float16": torch.float16}
DTYPE_NAMES = {v: k for k, v in DTYPES.items()}

# unit round-off
UNIT = {torch.float64: 2.0**-53, torch.float32: 2.0**-24, torch.bfloat16: 2.0**-8, torch.float16: 2.0**-11}

GROUP_KEYS = (
    "lr",
    "betas",
    "beta3",
    "epsilon",
    "momentum",
    "dampening",
    "weight_decay",
    "max_preconditioner_dim",
    "precondition_frequency",
    "start_preconditioning_step",
    "inv_root_override",
    "use_nesterov",
    "use_bias_correction",
    "use_decoupled_weight_decay",
    "grafting",
    "use_merge_dims",
    "preconditioner_dtype",
    "preconditioner",
)

DEFAULT_CONFIG: dict[str, Any] = {
    "lr": 0.0625,
    "betas": [0.9, 1.0],
    "beta3": -1.0,
    "epsilon": 1e-12,
    "momentum": 0.0,
    "dampening": 0.0,
    "weight_decay": 0.0,
    "max_preconditioner_dim": 1024,
    "precondition_frequency": 1,
    "start_preconditioning_step": -1,
    "inv_root_override": 0,
    "use_nesterov": False,
    "use_bias_correction": True,
    "use_decoupled_weight_decay": True,
    "grafting": None,
    "use_merge_dims": True,
    "preconditioner_dtype": "float32",
    "preconditioner": {
        "kind": "shampoo",
        "solver": {"type": "eigen", "retry": True, "exponent_multiplier": 1.0, "enhance_stability": False},
        "tolerated_failures": 3,
        "ignored_dims": [],
    },
    "pt2": None,
}


def f32(x: float) -> float:
    """Round to a float32-representable python float (the implementation ships lr as a float32 0-d tensor)."""
    return float(torch.tensor(x, dtype=torch.float32).item())


def canonical_json(obj: Any) -> str:
    return json.dumps(obj, sort_keys=True, separators=(",", ":"))


def digest(obj: Any) -> str:
    return hashlib.sha256(canonical_json(obj).encode()).hexdigest()[:16]


# ---------------------------------------------------------------------------------------------------------------------
# configuration objects


def make_grafting(g: dict | None):
    from distributed_shampoo.shampoo_types import (
        AdaGradGraftingConfig,
        AdamGraftingConfig,
        RMSpropGraftingConfig,
        SGDGraftingConfig,
    )

    if g is None:
        return None
    t = g["type"]
    if t == "sgd":
        return SGDGraftingConfig()
    if t == "adagrad":
        return AdaGradGraftingConfig(epsilon=g["epsilon"])
    if t == "rmsprop":
        return RMSpropGraftingConfig(beta2=g["beta2"], epsilon=g["epsilon"])
    if t == "adam":
        return AdamGraftingConfig(beta2=g["beta2"], epsilon=g["epsilon"])
    raise ValueError(t)


def make_solver(s: dict):
    from matrix_functions_types import (
        CoupledHigherOrderConfig,
        CoupledNewtonConfig,
        EigenConfig,
        EighEigenvectorConfig,
        QRConfig,
    )

    t = s["type"]
    if t == "eigen":
        return EigenConfig(
            retry_double_precision=s.get("retry", True),
            exponent_multiplier=s.get("exponent_multiplier", 1.0),
            enhance_stability=s.get("enhance_stability", False),
        )
    if t == "newton":
        return CoupledNewtonConfig(max_iterations=s.get("max_iterations", 100), tolerance=s.get("tolerance", 1e-6))
    if t == "higher_order":
        return CoupledHigherOrderConfig(
            rel_epsilon=s.get("rel_epsilon", 0.0),
            max_iterations=s.get("max_iterations", 100),
            tolerance=s.get("tolerance", 1e-8),
            order=s.get("order", 3),
        )
    if t == "eigh":
        return EighEigenvectorConfig(retry_double_precision=s.get("retry", True))
    if t == "qr":
        return QRConfig(max_iterations=s.get("max_iterations", 1), tolerance=s.get("tolerance", 1e-5))
    raise ValueError(t)


def make_preconditioner(p: dict):
    from distributed_shampoo.shampoo_types import (
        EigenvalueCorrectedShampooPreconditionerConfig,
        ShampooPreconditionerConfig,
    )

    cls = ShampooPreconditionerConfig if p["kind"] == "shampoo" else EigenvalueCorrectedShampooPreconditionerConfig
    return cls(
        amortized_computation_config=make_solver(p["solver"]),
        num_tolerated_failed_amortized_computations=p.get("tolerated_failures", 3),
        ignored_dims=list(p.get("ignored_dims", [])),
    )


def make_pt2(p: dict | None):
    from distributed_shampoo.shampoo_types import ShampooPT2CompileConfig

    if p is None:
        return None
    return ShampooPT2CompileConfig(
        pytorch_compile_backend=p["backend"], enable_shampoo_pt2_dynamic_shape=p.get("dynamic", False)
    )


def _convert_value(key: str, value: Any) -> tuple[str, Any]:
    """trace key/value -> constructor / param-group key/value"""
    if key == "betas":
        return "betas", tuple(value)
    if key == "grafting":
        return "grafting_config", make_grafting(value)
    if key == "preconditioner":
        return "preconditioner_config", make_preconditioner(value)
    if key == "preconditioner_dtype":
        return "preconditioner_dtype", DTYPES[value]
    if key == "inv_root_override":
        return "inv_root_override", (list(value) if isinstance(value, (list, tuple)) else value)
    return key, value


def ctor_kwargs(config: dict) -> dict:
    kw = {}
    for k in GROUP_KEYS:
        kk, vv = _convert_value(k, config[k])
        kw[kk] = vv
    kw["shampoo_pt2_compile_config"] = make_pt2(config.get("pt2"))
    return kw


def group_override_kwargs(overrides: dict) -> dict:
    out = {}
    for k, v in overrides.items():
        kk, vv = _convert_value(k, v)
        out[kk] = vv
    return out


def full_config(config: dict) -> dict:
    c = copy.deepcopy(DEFAULT_CONFIG)
    for k, v in config.items():
        c[k] = copy.deepcopy(v)
    return c


def resolved_config(config: dict) -> dict:
    """Optimizer-level config with the documented default substitutions applied (beta3=-1 -> beta1, start=-1 -> freq)."""
    c = full_config(config)
    if c["beta3"] == -1.0:
        c["beta3"] = c["betas"][0]
    if c["start_preconditioning_step"] == -1:
        c["start_preconditioning_step"] = c["precondition_frequency"]
    return c


def effective_group_config(config: dict, overrides: dict) -> dict:
    """A group's effective hyper-parameters: optimizer-level *resolved* values overridden by the group's own keys."""
    c = resolved_config(config)
    for k, v in overrides.items():
        c[k] = copy.deepcopy(v)
    return c


# ---------------------------------------------------------------------------------------------------------------------
# tensors


def make_param(spec: dict, dtype_override: torch.dtype | None = None) -> torch.Tensor:
    g = torch.Generator().manual_seed(int(spec["init_seed"]))
    shape = tuple(spec["shape"])
    t = torch.randn(shape, generator=g, dtype=torch.float64) * float(spec.get("init_scale", 1.0))
    dt = dtype_override or DTYPES[spec["dtype"]]
    return apply_layout(t.to(dt), spec.get("perm"))


def apply_layout(t: torch.Tensor, perm: list[int] | None) -> torch.Tensor:
    """Same logical tensor, memory laid out in the order of the dimension permutation `perm` (e.g. channels_last is
    [0, 2, 3, 1]): a dense, non-overlapping, non-contiguous tensor."""
    if not perm or t.dim() < 2:
        return t
    inv = [0] * len(perm)
    for i, d in enumerate(perm):
        inv[d] = i
    return t.permute(perm).contiguous().permute(inv)


def make_grad(shape: tuple[int, ...], dtype: torch.dtype, seed: int, kind: str, scale: float = 1.0) -> torch.Tensor:
    """Seeded gradient. Generated in float64, then cast, so that twins in other dtypes see the same real numbers."""
    g = torch.Generator().manual_seed(int(seed))
    numel = 1
    for s in shape:
        numel *= s
    if kind == "gauss":
        t = torch.randn(shape, generator=g, dtype=torch.float64)
    elif kind == "rank1":
        if len(shape) == 0:
            t = torch.randn(shape, generator=g, dtype=torch.float64)
        else:
            t = torch.ones((), dtype=torch.float64)
            for d, s in enumerate(shape):
                v = torch.randn(s, generator=g, dtype=torch.float64)
                view = [1] * len(shape)
                view[d] = s
                t = t * v.view(view)
    elif kind == "onehot":
        t = torch.zeros(numel, dtype=torch.float64)
        if numel:
            idx = int(torch.randint(0, numel, (1,), generator=g).item())
            t[idx] = 1.0 + float(torch.rand((), generator=g, dtype=torch.float64))
        t = t.view(shape)
    elif kind == "zero":
        t = torch.zeros(shape, dtype=torch.float64)
    elif kind == "ones":
        t = torch.ones(shape, dtype=torch.float64)
    elif kind == "inf":
        t = torch.randn(shape, generator=g, dtype=torch.float64)
        if numel:
            t.view(-1)[int(torch.randint(0, numel, (1,), generator=g).item())] = float("inf")
    elif kind == "nan":
        t = torch.randn(shape, generator=g, dtype=torch.float64)
        if numel:
            t.view(-1)[int(torch.randint(0, numel, (1,), generator=g).item())] = float("nan")
    elif kind in ("inf_last", "nan_last"):
        # the last element: it lies in the remainder block of every blocked dimension (a 1x1 Kronecker factor when
        # dim % max_preconditioner_dim == 1)
        t = torch.randn(shape, generator=g, dtype=torch.float64)
        if numel:
            t.view(-1)[numel - 1] = float("inf") if kind == "inf_last" else float("nan")
    else:
        raise ValueError(kind)
    return (t * scale).to(dtype)


def build_param_groups(trace: dict, params: list[torch.Tensor]) -> list[dict]:
    groups = []
    for g in trace["groups"]:
        d = {"params": [params[i] for i in g["params"]]}
        d.update(group_override_kwargs(g.get("overrides", {})))
        groups.append(d)
    return groups


def build_optimizer(trace: dict, params: list[torch.Tensor], distributed_config=None, pt2: Any = "from_trace"):
    from distributed_shampoo.distributed_shampoo import DistributedShampoo

    kw = ctor_kwargs(full_config(trace["config"]))
    if pt2 != "from_trace":
        kw["shampoo_pt2_compile_config"] = pt2
    return DistributedShampoo(build_param_groups(trace, params), distributed_config=distributed_config, **kw)


# ---------------------------------------------------------------------------------------------------------------------
# state walker (own traversal of optimizer.state; does not use the repo's flatten / state_dict code)


def _local(t: torch.Tensor) -> torch.Tensor:
    if type(t).__name__ == "DTensor":
        return t.to_local()
    return t


def walk_state(obj: Any, path: tuple = ()) -> Iterator[tuple[tuple, torch.Tensor]]:
    """Yield (path, tensor) for every tensor reachable from a state object (dicts, sequences, attribute bags)."""
    if isinstance(obj, torch.Tensor):
        yield path, obj
    elif isinstance(obj, dict):
        for k, v in obj.items():
            yield from walk_state(v, path + (k,))
    elif isinstance(obj, (list, tuple)):
        for i, v in enumerate(obj):
            yield from walk_state(v, path + (i,))
    elif hasattr(obj, "__dict__") and not isinstance(obj, (str, bytes, type)) and not callable(obj):
        for k, v in vars(obj).items():
            yield from walk_state(v, path + (k,))


def param_state_tensors(opt, param) -> dict[tuple, torch.Tensor]:
    return {p: t for p, t in walk_state(opt.state[param])}


def snapshot_state(opt, param) -> dict[tuple, torch.Tensor]:
    return {p: _local(t).detach().clone() for p, t in walk_state(opt.state[param])}


def tensor_bytes(t: torch.Tensor) -> bytes:
    t = _local(t).detach().contiguous()
    if t.dtype == torch.bfloat16:
        t = t.view(torch.int16)
    return t.numpy().tobytes()


def bit_equal(a: torch.Tensor, b: torch.Tensor) -> bool:
    a = _local(a).detach()
    b = _local(b).detach()
    if a.shape != b.shape or a.dtype != b.dtype:
        return False
    if a.numel() == 0:
        return True
    if a.dtype.is_floating_point:
        n = a.element_size()
        it = {1: torch.int8, 2: torch.int16, 4: torch.int32, 8: torch.int64}[n]
        return bool(torch.equal(a.contiguous().view(it), b.contiguous().view(it)))
    return bool(torch.equal(a, b))

"""Sharded layouts in the simulated world: FSDP / HSDP (flat-parameter shards + metadata) and fully_shard / hybrid-shard
(dim-0 sharded DTensors). The FSDP wrappers themselves are stubs (DESIGN 2.1): a harness sharder builds what they would
hand to the optimizer."""

from __future__ import annotations

import math
from collections import Counter
from typing import Any

import torch
import torch.distributed as dist

from . import adapter, spec, world, worldrun
from .engine import Violation


# ---------------------------------------------------------------------------------------------------------------------
# independent decomposition of a flat range into maximal shape-respecting slabs (oracle for C07; not the repo's code)


def ref_split(shape: list[int], start: int, end: int) -> list[tuple[int, int, tuple[int, ...]]]:
    """[(flat_start, flat_end, slab_shape)] : slabs k x shape[d+1:] inside a single index of the leading dims, in order,
    as few as possible."""
    if start >= end:
        return []
    if len(shape) <= 1:
        return [(start, end, (end - start,))]
    row = math.prod(shape[1:])
    if row == 0:
        return []
    a = -(-start // row) * row  # first row boundary >= start
    b = (end // row) * row  # last row boundary <= end
    out: list[tuple[int, int, tuple[int, ...]]] = []
    if a < b:
        if start < a:
            base = (start // row) * row
            out += [(s + base, e + base, sh) for s, e, sh in ref_split(shape[1:], start - base, a - base)]
        out.append((a, b, ((b - a) // row, *shape[1:])))
        if b < end:
            out += [(s + b, e + b, sh) for s, e, sh in ref_split(shape[1:], 0, end - b)]
    elif a > b:
        base = (start // row) * row
        out += [(s + base, e + base, sh) for s, e, sh in ref_split(shape[1:], start - base, end - base)]
    else:  # a == b: the range straddles exactly one row boundary
        if start < a:
            base = (start // row) * row
            out += [(s + base, e + base, sh) for s, e, sh in ref_split(shape[1:], start - base, a - base)]
        if b < end:
            out += [(s + b, e + b, sh) for s, e, sh in ref_split(shape[1:], 0, end - b)]
    return out


def flat_shard_ranges(numels: list[int], n_shards: int) -> list[list[tuple[int, int]]]:
    """Harness sharder: the concatenated flat parameter is padded to a multiple of n_shards and chunked evenly (as
    FlatParamHandle does); returns per shard rank, per parameter, the (start, end) range in the parameter's own flat
    coordinates (start == end for an empty local shard)."""
    total = sum(numels)
    chunk = -(-total // n_shards) if total else 0
    offs = [0]
    for n in numels:
        offs.append(offs[-1] + n)
    out = []
    for r in range(n_shards):
        lo, hi = r * chunk, min((r + 1) * chunk, total)
        per = []
        for i, n in enumerate(numels):
            s, e = max(lo, offs[i]), min(hi, offs[i + 1])
            per.append((s - offs[i], e - offs[i]) if s < e else (0, 0))
        out.append(per)
    return out


def dim0_chunk(full: torch.Tensor, n: int, idx: int) -> torch.Tensor:
    """torch.chunk semantics along dim 0 (uneven and empty shards)."""
    chunks = torch.chunk(full, n, dim=0)
    if idx < len(chunks):
        return chunks[idx].clone()
    return full.new_empty((0, *full.shape[1:]))


# ---------------------------------------------------------------------------------------------------------------------
# rank programs


class Program:
    """What one rank runs. Subclasses build the optimizer's parameters for their layout."""

    def __init__(self, trace: dict, rank: int, sim: world.Sim) -> None:
        self.trace, self.rank, self.sim = trace, rank, sim
        self.w = trace["world"]
        self.full = [spec.make_param(p) for p in trace["params"]]
        self.params: list[torch.Tensor] = []
        self.opt = None
        self.shard_rank = 0
        self.replica_rank = 0

    # layout helpers ------------------------------------------------------------------------------------------------
    def mesh2d(self):
        from torch.distributed.device_mesh import init_device_mesh

        R, S = self.w["mesh"]
        mesh = init_device_mesh("cpu", (R, S), mesh_dim_names=("replicate", "shard"))
        self.replica_rank, self.shard_rank = mesh.get_local_rank(0), mesh.get_local_rank(1)
        return mesh

    def comm_kwargs(self) -> dict:
        return dict(
            communication_dtype=worldrun.comm_enum(self.w["comm_dtype"]),
            num_trainers_per_group=self.w["num_trainers_per_group"],
            communicate_params=self.w["communicate_params"],
        )

    def local_grad(self, pi: int, g: list) -> torch.Tensor:
        raise NotImplementedError

    def set_grads(self, ev: dict) -> None:
        for pi, (p, g) in enumerate(zip(self.params, ev["g"])):
            p.grad = None if g is None else self.local_grad(pi, g)

    def snapshot(self) -> list[torch.Tensor]:
        return [spec._local(p.detach()).clone() for p in self.params]

    def full_grad(self, pi: int, g: list) -> torch.Tensor:
        ps = self.trace["params"][pi]
        return spec.make_grad(tuple(ps["shape"]), spec.DTYPES[ps["dtype"]], g[0], g[1], g[2])


class DDPProgram(Program):
    def setup(self) -> None:
        from distributed_shampoo.shampoo_types import DDPShampooConfig

        fz = set(self.trace.get("frozen", []))
        self.params = [p.clone().requires_grad_(i not in fz) for i, p in enumerate(self.full)]
        self.opt = spec.build_optimizer(self.trace, self.params, distributed_config=DDPShampooConfig(**self.comm_kwargs()))

    def local_grad(self, pi: int, g: list) -> torch.Tensor:
        return self.full_grad(pi, g)


class FlatShardProgram(Program):
    """FSDP (1-D) and HSDP (replicate x shard) over flat-parameter shards with metadata."""

    def setup(self) -> None:
        from distributed_shampoo.shampoo_types import FSDPParameterMetadata, FSDPShampooConfig, HSDPShampooConfig
        from torch.distributed.fsdp import ShardingStrategy

        hsdp = self.w["kind"] == "hsdp"
        if hsdp:
            mesh = self.mesh2d()
            S = self.w["mesh"][1]
        else:
            S = self.w["size"]
            self.shard_rank = dist.get_rank()
        numels = [p.numel() for p in self.full]
        self.ranges = flat_shard_ranges(numels, S)[self.shard_rank]
        self.params = []
        meta = {}
        for pi, (full, (s, e)) in enumerate(zip(self.full, self.ranges)):
            local = torch.nn.Parameter(full.reshape(-1)[s:e].clone(), requires_grad=pi not in set(self.trace.get("frozen", [])))
            self.params.append(local)
            meta[local] = FSDPParameterMetadata(
                fqn=f"p{pi}.weight",
                shape=torch.Size(self.trace["params"][pi]["shape"]),
                numel=full.numel(),
                start_idx=s,
                end_idx=e,
                sharding_strategy=ShardingStrategy.HYBRID_SHARD if hsdp else ShardingStrategy.FULL_SHARD,
            )
        if hsdp:
            dc = HSDPShampooConfig(param_to_metadata=meta, device_mesh=mesh, **self.comm_kwargs())
        else:
            dc = FSDPShampooConfig(param_to_metadata=meta)
        self.opt = spec.build_optimizer(self.trace, self.params, distributed_config=dc)

    def local_grad(self, pi: int, g: list) -> torch.Tensor:
        s, e = self.ranges[pi]
        return self.full_grad(pi, g).reshape(-1)[s:e].clone()


class DTensorShardProgram(Program):
    """fully_shard (1-D mesh) and hybrid shard (replicate x shard): real dim-0 sharded DTensor parameters."""

    def setup(self) -> None:
        from distributed_shampoo.shampoo_types import FullyShardShampooConfig, HybridShardShampooConfig
        from torch.distributed.device_mesh import init_device_mesh
        from torch.distributed.tensor import DTensor, Replicate, Shard

        hybrid = self.w["kind"] == "hybrid_shard"
        if hybrid:
            self.mesh = self.mesh2d()
            S = self.w["mesh"][1]
            self.placements = [Replicate(), Shard(0)]
        else:
            self.mesh = init_device_mesh("cpu", (self.w["size"],))
            S = self.w["size"]
            self.shard_rank = dist.get_rank()
            self.placements = [Shard(0)]
        self.S = S
        self.params = []
        for full in self.full:
            local = dim0_chunk(full, S, self.shard_rank)
            dt = DTensor.from_local(local, self.mesh, self.placements, run_check=False, shape=full.shape, stride=full.stride())
            self.params.append(torch.nn.Parameter(dt, requires_grad=len(self.params) not in set(self.trace.get("frozen", []))))
        dc = HybridShardShampooConfig(device_mesh=self.mesh, **self.comm_kwargs()) if hybrid else FullyShardShampooConfig()
        self.opt = spec.build_optimizer(self.trace, self.params, distributed_config=dc)

    def local_grad(self, pi: int, g: list) -> torch.Tensor:
        from torch.distributed.tensor import DTensor

        full = self.full_grad(pi, g)
        local = dim0_chunk(full, self.S, self.shard_rank)
        return DTensor.from_local(local, self.mesh, self.placements, run_check=False, shape=full.shape, stride=full.stride())


PROGRAMS = {"ddp": DDPProgram, "fsdp": FlatShardProgram, "hsdp": FlatShardProgram, "fully_shard": DTensorShardProgram, "hybrid_shard": DTensorShardProgram}


def make_rank_main(trace: dict, outs: list[worldrun.RankOut], collect_info: bool = True):
    events = trace["events"]

    def rank_main(rank: int, sim: world.Sim) -> None:
        out = outs[rank]
        ctx = sim.me()
        prog = PROGRAMS[trace["world"]["kind"]](trace, rank, sim)
        prog.setup()
        out.extra["shard_rank"], out.extra["replica_rank"] = prog.shard_rank, prog.replica_rank
        out.extra["ranges"] = getattr(prog, "ranges", None)
        out.extra["initial"] = prog.snapshot()
        out.extra["state_presence"] = state_presence(prog)
        if collect_info and trace["world"]["kind"] in ("ddp", "hsdp", "hybrid_shard"):
            out.groups_info = collect_group_info_generic(prog)
        sim.record("built")
        sim.yield_()
        for ei, ev in enumerate(events):
            if ev["op"] == "step":
                prog.set_grads(ev)
                try:
                    prog.opt.step()
                except world.SimAbort:
                    raise
                except Exception:
                    out.exc_event = ei
                    raise
                out.snaps[ei] = prog.snapshot()
                out.steps[ei] = [
                    int(prog.opt.state[prog.params[g["params"][0]]]["step"].item()) if prog.params[g["params"][0]] in prog.opt.state else -1
                    for g in trace["groups"]
                ]
            elif ev["op"] == "set_hparam":
                prog.opt.param_groups[ev["group"]][ev["key"]] = ev["value"]
            elif ev["op"] == "poke":
                with torch.no_grad():
                    spec._local(prog.params[ev["param"]]).mul_(ev["scale"])
            ctx.progress = ei + 1
            sim.record("event_done", ei)
            sim.yield_()

    return rank_main


def state_presence(prog: Program) -> list[dict]:
    """Per parameter: does the optimizer hold state for it on this rank, and how many local elements."""
    res = []
    for p in prog.params:
        if p in prog.opt.state:
            n = sum(int(spec._local(t).numel()) for path, t in spec.walk_state(prog.opt.state[p]) if path != ("step",))
            keys = sorted(str(k) for k in prog.opt.state[p].keys() if k != "step")
            res.append({"has": True, "numel": n, "keys": keys})
        else:
            res.append({"has": False, "numel": 0, "keys": []})
    return res


def collect_group_info_generic(prog: Program) -> list[dict]:
    counted = None
    if prog.w["kind"] == "hybrid_shard":
        # the distributor enumerates only parameters with a non-empty local shard
        counted = [spec._local(p.detach()).numel() > 0 for p in prog.params]
    return worldrun.collect_group_info(prog.opt, prog.trace, prog.params, counted)

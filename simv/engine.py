"""Single-node event-history engine: drives the real optimizer through a trace, with pluggable oracles."""

from __future__ import annotations

import logging
import math
from collections import Counter
from dataclasses import dataclass, field
from typing import Any

import torch

from . import adapter, depmon, refmodel, spec
from .refmodel import HP


@dataclass
class Violation:
    prop: str
    tag: str
    event: int
    context: dict = field(default_factory=dict)

    def to_json(self) -> dict:
        return {"property": self.prop, "tag": self.tag, "event": self.event, "context": self.context}


class Stop(Exception):
    def __init__(self, violation: Violation) -> None:
        super().__init__(f"{violation.prop}:{violation.tag}@{violation.event}")
        self.violation = violation


@dataclass
class BlockRef:
    gi: int
    li: int
    param_index: int  # index into trace["params"]
    param: torch.Tensor
    key: str
    block: torch.Tensor
    idx: torch.Tensor  # flat indices into the parameter
    info: Any


class LogCapture(logging.Handler):
    """Collects records of the repository's loggers (observable behaviour: the property names logged warnings)."""

    def __init__(self) -> None:
        super().__init__(level=logging.DEBUG)
        self.records: list[logging.LogRecord] = []

    def emit(self, record: logging.LogRecord) -> None:
        self.records.append(record)

    def take(self) -> list[logging.LogRecord]:
        r, self.records = self.records, []
        return r


_LOGGERS = (
    "distributed_shampoo.utils.shampoo_preconditioner_list",
    "distributed_shampoo.distributed_shampoo",
    "matrix_functions",
)


def config_features(cfg: dict, param_dtypes: list[str]) -> dict:
    g = cfg["grafting"]
    pc = cfg["preconditioner"]
    return {
        "grafting": g["type"] if g else "none",
        "beta1_pos": cfg["betas"][0] > 0,
        "beta3_eq_beta1": cfg["beta3"] == cfg["betas"][0],
        "bias_correction": bool(cfg["use_bias_correction"]),
        "beta2_one": cfg["betas"][1] == 1.0,
        "kind": pc["kind"],
        "solver": pc["solver"]["type"],
        "decoupled": bool(cfg["use_decoupled_weight_decay"]),
        "wd_pos": cfg["weight_decay"] > 0,
        "momentum_pos": cfg["momentum"] > 0,
        "nesterov": bool(cfg["use_nesterov"]),
        "precond_dtype": cfg["preconditioner_dtype"],
        "param_dtypes": sorted(set(param_dtypes)),
        "dtype_mismatch": any(d != cfg["preconditioner_dtype"] for d in param_dtypes),
        "ignored_dims": bool(pc.get("ignored_dims")),
        "merge": bool(cfg["use_merge_dims"]),
    }


def natural_failure(run: "SingleRun", exc: BaseException) -> bool:
    """A failing amortized computation that the *inputs* explain (DESIGN section 7): an iterative solver that did not
    converge / blew up, or the stability path of the eigen solver when epsilon lies below the factor's resolution.
    Such a run ends without a verdict; everything up to the raising step was still checked."""
    msg = str(exc)
    if not isinstance(exc, ValueError):  # (PreconditionerValueError and any tolerance error are ValueErrors)
        return False
    if "nan or inf values in" in msg and depmon.count() > getattr(run, "dep_before", 1 << 60):
        # torch.linalg.eigh itself returned a non-finite decomposition of a finite matrix during this step (depmon)
        run.probes["dependency_eigh_nonfinite"] += 1
        return True
    if not ("inverse factor matrix" in msg or "exceeded the allowed tolerance" in msg or "eigenvectors" in msg):
        return False
    for gi, hp in enumerate(run.hps):
        st = hp.solver["type"]
        if st in ("newton", "higher_order"):
            return True
        if st == "eigen" and hp.solver.get("enhance_stability"):
            unit = spec.UNIT[hp.precond_dtype]
            for b in run.blocks[gi]:
                sh = run.opt.state[b.param][b.key].get("shampoo")
                for L in getattr(sh, "factor_matrices", ()):
                    Ll = spec._local(L)
                    if Ll.numel() and hp.epsilon < 100.0 * unit * Ll.shape[0] * float(Ll.abs().max()):
                        return True
    return False


class Oracle:
    def on_built(self, run: "SingleRun") -> None: ...
    def pre_step(self, run: "SingleRun", ei: int, ev: dict) -> None: ...
    def post_step(self, run: "SingleRun", ei: int, ev: dict, exc: BaseException | None) -> None: ...
    def on_hparam(self, run: "SingleRun", ei: int, ev: dict) -> None: ...
    def on_poke(self, run: "SingleRun", ei: int, ev: dict) -> None: ...
    def finish(self, run: "SingleRun") -> None: ...


class SingleRun:
    def __init__(self, trace: dict, oracles: list[Oracle], prop: str, pt2: Any = "from_trace", sane_guard: bool = True) -> None:
        self.trace = trace
        self.sane_guard = sane_guard  # (fault-injecting runs judge non-finite parameters themselves)
        self.prop = prop
        self.oracles = oracles
        self.probes: Counter = Counter()
        depmon.install()
        self.params = [spec.make_param(p).requires_grad_(True) for p in trace["params"]]
        self.param_group_of: dict[int, int] = {}
        for gi, g in enumerate(trace["groups"]):
            for pi in g["params"]:
                self.param_group_of[pi] = gi
        self.group_cfgs = [spec.effective_group_config(trace["config"], g.get("overrides", {})) for g in trace["groups"]]
        self.hps = [HP.from_config(c) for c in self.group_cfgs]
        self.features = [
            config_features(c, [trace["params"][pi]["dtype"] for pi in g["params"]])
            for c, g in zip(self.group_cfgs, trace["groups"])
        ]
        self.log = LogCapture()
        self._loggers = [logging.getLogger(n) for n in _LOGGERS]
        for lg in self._loggers:
            lg.addHandler(self.log)
            lg.setLevel(logging.INFO) if lg.level == logging.NOTSET or lg.level > logging.INFO else None
            lg.propagate = False
        try:
            self.opt = spec.build_optimizer(trace, self.params, pt2=pt2)
        except BaseException:
            self.close()
            raise
        self.log.take()
        self.counters = [0] * len(trace["groups"])
        self.blocks: list[list[BlockRef]] = []
        for gi, g in enumerate(trace["groups"]):
            refs = []
            param_to_index = {id(self.params[pi]): pi for pi in g["params"]}
            for li, (block, info) in enumerate(adapter.local_blocks(self.opt, gi)):
                pi = param_to_index[id(info.param)]
                refs.append(
                    BlockRef(
                        gi=gi,
                        li=li,
                        param_index=pi,
                        param=info.param,
                        key=info.composable_block_ids[1],
                        block=block,
                        idx=refmodel.block_flat_indices(block, info.param.detach()),
                        info=info,
                    )
                )
            self.blocks.append(refs)
        self.event_index = -1
        self.steps_done = 0
        self.phases_seen: dict[int, set] = {gi: set() for gi in range(len(trace["groups"]))}
        self.ended_naturally = False
        self.failure_messages: list[str] = []
        self.failed_this_step: set = set()

    def close(self) -> None:
        for lg in self._loggers:
            lg.removeHandler(self.log)

    # ---------------------------------------------------------------------------------------------------------------
    def violation(self, tag: str, gi: int | None = None, **ctx: Any) -> Stop:
        c = dict(ctx)
        if gi is not None:
            c["group"] = gi
            c.update({f"f_{k}": v for k, v in self.features[gi].items()})
            hp = self.hps[gi]
            t = self.counters[gi]
            c["group_step"] = t
            c["phase"] = "warmup" if t < hp.start else ("refresh" if hp.is_refresh(t) else "between")
        return Stop(Violation(self.prop, tag, self.event_index, c))

    def set_grads(self, ev: dict) -> None:
        for p, spec_p, g in zip(self.params, self.trace["params"], ev["g"]):
            if g is None:
                p.grad = None
            else:
                seed, kind, scale = g
                # (the gradient of a parameter kept in another memory layout has that layout too, as autograd produces it)
                p.grad = spec.apply_layout(spec.make_grad(tuple(spec_p["shape"]), p.dtype, seed, kind, scale), spec_p.get("perm"))

    def group_present(self, gi: int, ev: dict) -> bool:
        return any(ev["g"][pi] is not None for pi in self.trace["groups"][gi]["params"])

    def step_tensor(self, gi: int) -> int:
        p0 = self.params[self.trace["groups"][gi]["params"][0]]
        return int(self.opt.state[p0]["step"].item())

    def run(self) -> Violation | None:
        try:
            for o in self.oracles:
                o.on_built(self)
            for ei, ev in enumerate(self.trace["events"]):
                self.event_index = ei
                op = ev["op"]
                if op == "step":
                    if self.sane_guard and self.left_sane_range():
                        # a blown-up trajectory (|w| beyond 1e12 or non-finite with finite, O(1) gradients): the oracles' error
                        # models say nothing there (overflow, underflow of roots, chaotic amplification) - the run ends without
                        # a verdict on the remaining steps
                        self.probes["ended_by_divergence"] += 1
                        self.ended_naturally = True
                        break
                    self.set_grads(ev)
                    for o in self.oracles:
                        o.pre_step(self, ei, ev)
                    for gi in range(len(self.counters)):
                        ps = [ev["g"][pi] is not None for pi in self.trace["groups"][gi]["params"]]
                        pres = "all" if all(ps) else ("none" if not any(ps) else "some")
                        if self.group_present(gi, ev):
                            self.counters[gi] += 1
                            hp, t = self.hps[gi], self.counters[gi]
                            ph = "warmup" if t < hp.start else ("switch" if t == hp.start else ("refresh" if hp.is_refresh(t) else "between"))
                            self.phases_seen[gi].add((ph, pres))
                        else:
                            self.phases_seen[gi].add(("idle", pres))
                    exc: BaseException | None = None
                    self.resume_after_raise = False  # (an oracle may set it: the caller catches this error and trains on)
                    self.dep_before = depmon.count()
                    try:
                        self.opt.step()
                    except Exception as e:  # noqa: BLE001
                        exc = e
                    self.steps_done += 1
                    for o in self.oracles:
                        o.post_step(self, ei, ev, exc)
                    if exc is not None and not self.resume_after_raise:
                        break  # state after a raising step is not interpreted
                elif op == "set_hparam":
                    gi, key, value = ev["group"], ev["key"], ev["value"]
                    self.opt.param_groups[gi][key] = value
                    self.group_cfgs[gi][key] = value
                    setattr(self.hps[gi], {"lr": "lr", "weight_decay": "weight_decay", "momentum": "momentum"}[key], value)
                    for o in self.oracles:
                        o.on_hparam(self, ei, ev)
                elif op == "poke":
                    # the user rescales a parameter in place between two steps (weight clipping, re-normalisation, a model
                    # load): the optimizer must work from the parameter's current value, not from anything it remembered
                    with torch.no_grad():
                        self.params[ev["param"]].mul_(ev["scale"])
                    self.probes["param_poked"] += 1
                    for o in self.oracles:
                        o.on_poke(self, ei, ev)
                else:
                    raise adapter.HarnessError(f"unknown event {op}")
            for o in self.oracles:
                o.finish(self)
            return None
        except Stop as s:
            return s.violation
        finally:
            self.final_digest = self._digest()
            self.close()

    SANE_LIMIT = 1e12

    def left_sane_range(self) -> bool:
        for p in self.params:
            d = p.detach()
            if d.numel() and not bool(torch.isfinite(d).all() and d.abs().max() <= self.SANE_LIMIT):
                return True
        return False

    def _digest(self) -> str:
        import hashlib

        h = hashlib.sha256()
        try:
            for p in self.params:
                h.update(spec.tensor_bytes(p))
                if p in self.opt.state:
                    for path, t in spec.walk_state(self.opt.state[p]):
                        h.update(repr(path).encode())
                        h.update(spec.tensor_bytes(t))
        except Exception as e:  # noqa: BLE001
            h.update(repr(e).encode())
        return h.hexdigest()[:20]


# =====================================================================================================================
# Oracles
# =====================================================================================================================


class FrozenMonitor(Oracle):
    """C04 clauses: absent parameters keep value and state bit-for-bit; group step counter advances iff the group has a
    gradient (DESIGN 3.3)."""

    def __init__(self) -> None:
        self.snap: dict[int, tuple[torch.Tensor, dict]] = {}
        self.pre_steps: list[int] = []

    def pre_step(self, run: SingleRun, ei: int, ev: dict) -> None:
        self.snap = {}
        for pi, g in enumerate(ev["g"]):
            if g is None:
                p = run.params[pi]
                self.snap[pi] = (p.detach().clone(), spec.snapshot_state(run.opt, p))
        self.pre_steps = [run.step_tensor(gi) for gi in range(len(run.counters))]

    def post_step(self, run: SingleRun, ei: int, ev: dict, exc: BaseException | None) -> None:
        if exc is not None:
            return
        for gi in range(len(run.counters)):
            present = run.group_present(gi, ev)
            now = run.step_tensor(gi)
            if not present and now != self.pre_steps[gi]:
                raise run.violation("step_advanced_without_grad", gi, before=self.pre_steps[gi], after=now)
            if present and now != self.pre_steps[gi] + 1:
                raise run.violation("step_not_advanced", gi, before=self.pre_steps[gi], after=now)
            if not present:
                run.probes["all_absent_group_step"] += 1
        for pi, (val, st) in self.snap.items():
            p = run.params[pi]
            gi = run.param_group_of[pi]
            group_has_grad = run.group_present(gi, ev)
            if not spec.bit_equal(p.detach(), val):
                raise run.violation("absent_param_value_changed", gi, param=pi)
            now = dict(spec.walk_state(run.opt.state[p]))
            if set(now) != set(st):
                raise run.violation("absent_param_state_changed:keys", gi, param=pi)
            for path, t in now.items():
                if path == ("step",) and group_has_grad:
                    continue  # the group's counter lives under its first parameter and legitimately advances
                if not spec.bit_equal(t, st[path]):
                    raise run.violation(
                        "absent_param_state_changed:" + "/".join(str(x) for x in path if not str(x).startswith("block_")),
                        gi,
                        param=pi,
                        path=[str(x) for x in path],
                    )
            run.probes["absent_param_checked"] += 1
            if group_has_grad:
                run.probes["absent_param_in_active_group"] += 1


class RefOracle(Oracle):
    """Per-step refinement against the float64 reference model R (DESIGN 3.1), per block and per state tensor."""

    def __init__(self, check_roots: bool = True, fault_aware: bool = False) -> None:
        self.check_roots = check_roots
        self.fault_aware = fault_aware
        self.pre: dict[tuple[int, int], dict] = {}
        self.prev_present: list[bool] | None = None
        self.mask_changed_since_refresh: dict[int, bool] = {}
        self.diverged = False

    # -- helpers -------------------------------------------------------------------------------------------------
    @staticmethod
    def block_state_dict(run: SingleRun, b: BlockRef) -> dict:
        return run.opt.state[b.param][b.key]

    def pre_step(self, run: SingleRun, ei: int, ev: dict) -> None:
        self.pre = {}
        present = [g is not None for g in ev["g"]]
        if self.prev_present is not None and present != self.prev_present:
            run.probes["presence_changed"] += 1
            for gi in range(len(run.counters)):
                self.mask_changed_since_refresh[gi] = True
        self.prev_present = present
        for gi, refs in enumerate(run.blocks):
            for b in refs:
                if ev["g"][b.param_index] is None:
                    continue
                p = b.param.detach()
                grad = b.param.grad.detach()
                self.pre[(gi, b.li)] = {
                    "W": torch.take(p.reshape(-1), b.idx).to(refmodel.F64).clone(),
                    "G": torch.take(grad.reshape(-1), b.idx).to(refmodel.F64).clone(),
                    "state": refmodel.read_block_state(self.block_state_dict(run, b)),
                }

    def post_step(self, run: SingleRun, ei: int, ev: dict, exc: BaseException | None) -> None:
        records = run.log.take()
        failed_indices = set()
        for r in records:
            if r.levelno < logging.WARNING:
                continue
            msg = r.getMessage()
            if "Matrix computation failed" in msg and "factor matrix " in msg:
                failed_indices.add(msg.split("factor matrix ", 1)[1].split(" ", 1)[0])
                run.failure_messages.append(msg[:300])
            elif "fail" in msg.lower():
                # a failure warning in another wording (the property only says that a warning is logged): which factor
                # failed is unknown, so no root / basis of this step is judged
                failed_indices.add("*")
                run.failure_messages.append(msg[:300])
        run.failed_this_step = failed_indices
        if exc is not None:
            if self.fault_aware:
                return
            if natural_failure(run, exc):
                run.probes["ended_by_natural_solver_failure"] += 1
                run.ended_naturally = True
                return
            if isinstance(exc, ValueError) and "factor matrix" in str(exc) and self._diverging(run):
                run.probes["ended_by_divergence"] += 1
                run.ended_naturally = True
                return
            raise run.violation(
                "unexpected_exception",
                next((gi for gi in range(len(run.counters)) if run.group_present(gi, ev)), 0),
                exc_type=type(exc).__name__,
                exc=str(exc)[:300],
            )
        for gi, refs in enumerate(run.blocks):
            hp = run.hps[gi]
            if not run.group_present(gi, ev):
                continue
            t = run.counters[gi]
            actual_t = run.step_tensor(gi)
            if actual_t != t:
                raise run.violation("step_counter_wrong", gi, expected=t, actual=actual_t)
            if hp.is_refresh(t):
                run.probes["refresh_step"] += 1
                if self.mask_changed_since_refresh.get(gi):
                    run.probes["refresh_with_mask_change_since_last"] += 1
                self.mask_changed_since_refresh[gi] = False
            if t < hp.start:
                run.probes["warmup_step"] += 1
            elif t == hp.start:
                run.probes["switch_step"] += 1
            for b in refs:
                key = (gi, b.li)
                if key not in self.pre:
                    continue
                self._check_block(run, gi, b, hp, t, self.pre[key], failed_indices)

    def _diverging(self, run: SingleRun) -> bool:
        """Has the trajectory left the representable range (overflow with finite gradients)?"""
        if self.diverged:
            return True
        for (gi, li), pre in self.pre.items():
            hp = run.hps[gi]
            lim = math.sqrt(min(torch.finfo(hp.precond_dtype).max, torch.finfo(run.blocks[gi][li].param.dtype).max)) * 1e-4
            g = refmodel._amax(pre["G"]) + hp.weight_decay * refmodel._amax(pre["W"])
            if not refmodel.is_finite(pre["G"]) or not refmodel.is_finite(pre["W"]) or g * math.sqrt(max(1, pre["G"].numel())) > lim:
                return True
            if any(not refmodel.is_finite(x) or refmodel._amax(x) > lim * lim for x in pre["state"].factors):
                return True
        return False

    def _check_block(self, run: SingleRun, gi: int, b: BlockRef, hp: HP, t: int, pre: dict, failed: set) -> None:
        pdt = b.param.dtype
        rt_p = refmodel.RTOL[pdt]
        rt_f = max(rt_p, refmodel.RTOL[hp.precond_dtype])
        post = refmodel.read_block_state(self.block_state_dict(run, b))
        st0 = pre["state"]
        pre_tensors = [pre["W"], pre["G"], *st0.factors, *st0.inv] + [
            x for x in (st0.corrected, st0.adagrad, st0.momentum, st0.filtered) if x is not None
        ]
        if not all(refmodel.is_finite(x) for x in pre_tensors):
            # a diverged trajectory (overflow to inf/nan with finite gradients) carries no verdict
            run.probes["nonfinite_state_skip"] += 1
            self.diverged = True
            return
        exp = refmodel.expected_step(hp, t, pre["W"], pre["G"], pre["state"], post.inv, post.corrected)
        ctx = {"block": b.key, "param": b.param_index, "shape": list(b.block.shape)}
        fin = torch.finfo(pdt)
        hi, lo = math.sqrt(fin.max) * 1e-3, math.sqrt(fin.tiny) * 1e3
        mags = [refmodel._amax(x) for x in (exp.W, exp.shampoo_direction, exp.graft_direction, exp.momentum, pre["G"]) if x is not None]
        out_of_range = any(m > hi for m in mags) or any(0.0 < m < lo for m in mags[1:3])
        ffin = torch.finfo(hp.precond_dtype)
        fmax = min(ffin.max, fin.max) * 1e-6
        out_of_range = out_of_range or any(refmodel._amax(x) > fmax for x in exp.factors)
        out_of_range = out_of_range or any(refmodel._amax(x) > math.sqrt(fmax) for x in post.inv)
        exp_tensors = [exp.W, *exp.factors] + [x for x in (exp.corrected, exp.adagrad, exp.momentum, exp.filtered) if x is not None]
        if out_of_range or not all(refmodel.is_finite(x) for x in exp_tensors):
            # intermediate squares / norms leave the dtype's range: overflow regime, no verdict
            run.probes["out_of_range_skip"] += 1
            self.diverged = True
            return
        order = b.block.dim()
        if order >= 3:
            run.probes["order3plus_block"] += 1
        if not post.factors:
            run.probes["block_without_factor"] += 1
        pdims = refmodel.preconditioned_dims(hp, order)

        # factor matrices
        for k, (a, e) in enumerate(zip(post.factors, exp.factors)):
            gap = refmodel.rel_gap(a, e, exp.scales["factors"][k])
            if gap > rt_f:
                raise run.violation("factor_mismatch", gi, factor=k, gap=gap, tol=rt_f, **ctx)

        # inverse roots / eigenbases
        any_failed = "*" in failed or any(idx.rsplit(".", 1)[0] == f"{self._param_index_in_group(run, b)}.{b.key}" for idx in failed)
        if any_failed and "*" in failed and not self.fault_aware:
            run.probes["failure_warning_unparsed"] += 1
        elif any_failed and not self.fault_aware:
            if hp.solver["type"] in ("newton", "higher_order"):
                run.probes["solver_failed_natural"] += 1
            else:
                # eigh / QR do not fail on finite input: a logged failure in a fault-free run means the refresh the
                # property demands did not happen
                tag = "inv_root_not_refreshed" if hp.kind == "shampoo" else "basis_not_refreshed"
                raise run.violation(tag, gi, note="amortized computation failed without an injected fault", failed=sorted(failed)[:4], **ctx)
        if not exp.refresh:
            for k, (a, e) in enumerate(zip(post.raw["inv"], pre["state"].raw["inv"])):
                if not spec.bit_equal(a, e):
                    tag = "inv_root_changed_off_schedule" if hp.kind == "shampoo" else "basis_changed_off_schedule"
                    raise run.violation(tag, gi, factor=k, **ctx)
        elif self.check_roots and not any_failed:
            if hp.kind == "shampoo":
                self._check_inverse_roots(run, gi, b, hp, t, post, pre, ctx, rt_f, order)
            else:
                self._check_bases(run, gi, b, hp, t, post, pre, ctx, order)
        for k, a in enumerate(post.inv):
            if not refmodel.is_finite(a):
                raise run.violation("nonfinite_root_stored", gi, factor=k, **ctx)

        # state recurrences
        if exp.corrected is not None:
            gap = refmodel.rel_gap(post.corrected, exp.corrected, exp.scales["corrected"])
            if gap > 4 * rt_p:
                raise run.violation("corrected_eigenvalues_mismatch", gi, gap=gap, tol=4 * rt_p, **ctx)
        if exp.adagrad is not None:
            gap = refmodel.rel_gap(post.adagrad, exp.adagrad, exp.scales["adagrad"])
            if gap > 4 * rt_p:
                raise run.violation("graft_accumulator_mismatch", gi, gap=gap, tol=4 * rt_p, **ctx)
        if exp.filtered is not None:
            gap = refmodel.rel_gap(post.filtered, exp.filtered, exp.scales["filtered"])
            if gap > rt_p:
                raise run.violation("filtered_grad_mismatch", gi, gap=gap, tol=rt_p, **ctx)
        elif post.filtered is not None and hp.beta1 == 0.0:
            raise run.violation("filtered_grad_mismatch", gi, gap=float("inf"), note="state exists with beta1=0", **ctx)

        # Running-error magnitudes are already folded into exp.scales (comparisons are relative to the operands), so
        # the tolerance is the dtype's rtol plus (a) the two contraction conventions of a not-exactly-symmetric stored
        # root and (b) bias-correction scalars carried in single precision (C10 names that effect).
        tol_dir = 4 * rt_p + 2.0 * exp.asym + 2.0 * exp.slack
        if exp.amplification > 1e6 or not (tol_dir < 0.3):
            run.probes["illcond_direction_skip"] += 1
            return
        if exp.momentum is not None:
            if hp.momentum != 0.0:
                gap = refmodel.rel_gap(post.momentum, exp.momentum, exp.scales["momentum"])
                if gap > tol_dir:
                    raise run.violation("momentum_mismatch", gi, gap=gap, tol=tol_dir, **ctx)
            elif not spec.bit_equal(post.raw["momentum"], pre["state"].raw["momentum"]):
                raise run.violation("momentum_mismatch", gi, gap=float("inf"), note="momentum=0 but buffer changed", **ctx)
        W_now = torch.take(b.param.detach().reshape(-1), b.idx).to(refmodel.F64)
        gap = refmodel.rel_gap(W_now, exp.W, exp.scales["W"])
        if gap > tol_dir:
            raise run.violation("param_mismatch", gi, gap=gap, tol=tol_dir, amplification=exp.amplification, **ctx)
        run.probes["block_steps_checked"] += 1

    @staticmethod
    def _param_index_in_group(run: SingleRun, b: BlockRef) -> int:
        return run.trace["groups"][b.gi]["params"].index(b.param_index)

    def _check_inverse_roots(self, run, gi, b, hp, t, post, pre, ctx, rt_f, order) -> None:
        root = hp.root_for_order(order)
        if root == 0:
            return
        exponent = hp.exponent_multiplier / root
        bc2 = hp.bc2(t)
        unit = max(spec.UNIT[hp.precond_dtype], spec.UNIT[b.param.dtype])
        for k, (X, L) in enumerate(zip(post.inv, post.factors)):
            n = L.shape[0]
            A = L / bc2
            Xref, cond = refmodel.spectral_inverse_root(A, hp.epsilon, exponent)
            bound = refmodel.inverse_root_bound(n, unit, cond, exponent, hp.solver)
            if not (bound <= 1e-2) or not refmodel.is_finite(Xref):
                run.probes["ill_conditioned_root_skip"] += 1
                continue
            scale = float(torch.linalg.matrix_norm(Xref, 2))
            fi = torch.finfo(hp.precond_dtype)
            if not (fi.tiny / fi.eps < scale < fi.max / 4):
                # the exact root leaves the range in which the storage dtype keeps its relative precision (it underflows to
                # subnormals / zero or overflows): a diverged trajectory, no accuracy statement applies
                run.probes["out_of_range_skip"] += 1
                continue
            gap = float(torch.linalg.matrix_norm(X - Xref, 2)) / max(scale, 1e-300)
            lam_scale = max(abs(math.log(max(float(A.abs().max()) * n + hp.epsilon, 1e-300))), abs(math.log(hp.epsilon)))
            scalar_slack = 2.0**-22 * lam_scale * exponent + refmodel._bc_slack(bc2, t) * exponent
            tol = max(bound, 8 * rt_f if hp.solver["type"] == "eigen" else 50 * rt_f) + scalar_slack
            run.probes["root_checked"] += 1
            if gap > tol:
                raise run.violation(
                    "inv_root_mismatch", gi, factor=k, gap=gap, tol=tol, cond=cond, root=root, n=n, **ctx
                )

    def _check_bases(self, run, gi, b, hp, t, post, pre, ctx, order) -> None:
        pdt = b.param.dtype
        unit = spec.UNIT[pdt]
        for k, (Q, L) in enumerate(zip(post.inv, post.factors)):
            n = Q.shape[0]
            if not bool(Q.any()):
                raise run.violation("basis_not_refreshed", gi, factor=k, **ctx)
            og = refmodel.orthonormality_gap(Q)
            compute_dt = torch.float64 if hp.precond_dtype in (torch.bfloat16, torch.float16) else hp.precond_dtype
            tol_o = 50 * n * max(unit, spec.UNIT[compute_dt])
            if og > tol_o:
                raise run.violation("basis_not_orthonormal", gi, factor=k, gap=og, tol=tol_o, **ctx)
            run.probes["basis_checked"] += 1


class SoapBasisOracle(Oracle):
    """C03 invariants that need the factor the basis was computed from (eigh: diagonalises; QR: orthogonal iterate)."""

    def __init__(self) -> None:
        self.pre_bases: dict[tuple[int, int], list[torch.Tensor]] = {}

    def pre_step(self, run: SingleRun, ei: int, ev: dict) -> None:
        self.pre_bases = {}
        for gi, refs in enumerate(run.blocks):
            if run.hps[gi].kind != "soap":
                continue
            for b in refs:
                sh = run.opt.state[b.param][b.key]["shampoo"]
                self.pre_bases[(gi, b.li)] = [
                    spec._local(q).detach().to(refmodel.F64).clone() for q in sh.factor_matrices_eigenvectors
                ]

    def post_step(self, run: SingleRun, ei: int, ev: dict, exc: BaseException | None) -> None:
        if exc is not None:
            return
        for gi, refs in enumerate(run.blocks):
            hp = run.hps[gi]
            if hp.kind != "soap" or not run.group_present(gi, ev):
                continue
            t = run.counters[gi]
            for b in refs:
                sh = run.opt.state[b.param][b.key]["shampoo"]
                Qs = [spec._local(q).detach().to(refmodel.F64) for q in sh.factor_matrices_eigenvectors]
                Ls = [spec._local(a).detach().to(refmodel.F64) for a in sh.factor_matrices]
                ctx = {"block": b.key, "param": b.param_index, "shape": list(b.block.shape)}
                # the basis is computed in the preconditioner dtype - or in float64 when that dtype has no eigh kernel and
                # the double-precision retry takes over - and stored in the parameter's dtype
                compute_dt = torch.float64 if hp.precond_dtype in (torch.bfloat16, torch.float16) else hp.precond_dtype
                unit = max(spec.UNIT[b.param.dtype], spec.UNIT[compute_dt])
                present = ev["g"][b.param_index] is not None
                # number of stored bases == number of preconditioned dims: ignored dims never get a basis
                pd = refmodel.preconditioned_dims(hp, b.block.dim())
                if len(Qs) != len(pd):
                    raise run.violation("ignored_dim_rotated", gi, n_bases=len(Qs), n_pdims=len(pd), **ctx)
                for k, Q in enumerate(Qs):
                    n = Q.shape[0]
                    if Q.shape != (b.block.shape[pd[k]],) * 2:
                        raise run.violation("ignored_dim_rotated", gi, factor=k, **ctx)
                    if not bool(Q.any()):
                        continue  # no basis yet
                    og = refmodel.orthonormality_gap(Q)
                    tol_o = 50 * n * unit
                    if og > tol_o:
                        raise run.violation("basis_not_orthonormal", gi, factor=k, gap=og, tol=tol_o, **ctx)
                if not (present and hp.is_refresh(t)):
                    continue
                pig = run.trace["groups"][gi]["params"].index(b.param_index)
                if "*" in run.failed_this_step or any(idx.rsplit(".", 1)[0] == f"{pig}.{b.key}" for idx in run.failed_this_step):
                    continue
                for k, (Q, L, Qprev) in enumerate(zip(Qs, Ls, self.pre_bases[(gi, b.li)])):
                    n = Q.shape[0]
                    if n == 1:
                        continue
                    diag_flag = bool(spec._local(sh.is_factor_matrices_diagonal[k]))
                    solver = hp.solver
                    if solver["type"] == "eigh" or not bool(Qprev.any()) or diag_flag:
                        # Q^T L Q diagonal within a conditioning-free bound: off-diagonals relative to |L|
                        r = refmodel.offdiag_ratio(Q, L)
                        tol = 200 * n * unit
                        run.probes["basis_diagonalisation_checked"] += 1
                        if r > tol:
                            raise run.violation("basis_not_diagonalising", gi, factor=k, gap=r, tol=tol, **ctx)
                    else:
                        ok, best = self._is_orthogonal_iterate(Q, L, Qprev, solver.get("max_iterations", 1), unit)
                        run.probes["basis_qr_iterate_checked" if best >= 0 else "basis_qr_iterate_undecidable"] += 1
                        if not ok:
                            raise run.violation("basis_not_orthogonal_iterate", gi, factor=k, gap=best, **ctx)

    @staticmethod
    def _match_qr_factor(
        Qf: torch.Tensor, M: torch.Tensor, unit: float, margin: float, floor: float, det_thresh: float
    ) -> tuple[bool, float, int]:
        """Is Qf (columns in any order, any sign) a Q-factor of M?  Gram-Schmidt matching over the *determined* prefix:
        column j of a Q-factor is +-normalize(M[:, j] - proj onto earlier columns) as long as that residual is well
        above round-off; from the first poorly determined column on, later columns depend on an arbitrary completion
        and are not constrained. Returns (ok, worst angle, number of determined columns matched)."""
        n = Qf.shape[0]
        used = [False] * n
        chosen: list[torch.Tensor] = []
        mscale = float(M.norm(dim=0).max())
        if mscale == 0.0:
            return True, 0.0, 0
        worst = 0.0
        for j in range(n):
            v = M[:, j].clone()
            for _ in range(2):
                for c in chosen:
                    v = v - (c @ v) * c
            nv = float(v.norm())
            theta_allowed = 200.0 * n * unit * mscale / max(nv, 1e-300)
            if not (theta_allowed <= det_thresh):
                return True, worst, j
            vh = v / nv
            cos = (Qf.T @ vh).abs()
            for c in range(n):
                if used[c]:
                    cos[c] = -1.0
            c = int(cos.argmax())
            qc = Qf[:, c]
            # angle from the component of the matched column orthogonal to vh (linear in the error, unlike 1 - cos)
            theta = float((qc - (qc @ vh) * vh).norm()) / max(float(qc.norm()), 1e-300)
            worst = max(worst, theta)
            if theta > max(margin * theta_allowed, floor):
                return False, theta, j
            used[c] = True
            chosen.append(qc / max(float(qc.norm()), 1e-300))
        return True, worst, n

    @classmethod
    def _is_orthogonal_iterate(cls, Q, L, Qprev, max_iter: int, unit: float) -> tuple[bool, float]:
        """Q equals (up to column sign and order) the j-th orthogonal iterate qr(L @ Q_{j-1}) of the previous basis for
        some j in 1..max_iter (the early-stopping rule is an implementation detail the property does not fix).

        With a single iteration (the default configuration) the comparison is tight (10x the round-off bound of each
        well-determined column). Chains of several iterations amplify round-off by the eigenvalue ratios at every
        step, so there only gross disagreement (angle > 0.3 on a column determined to 1e-3) is reported."""
        best = float("inf")
        cur = Qprev
        single = max_iter <= 1
        n = Q.shape[0]
        # sensitivity probe for chains: the same chain started from a basis perturbed at round-off level; where the two
        # chains drift apart (near-degenerate eigenvalues: columns rotate freely inside an eigenspace) nothing can be
        # decided about individual columns
        pert = torch.cos(torch.arange(n * n, dtype=Q.dtype).reshape(n, n) * 1.7 + 0.3) * (100.0 * unit)
        cur_b = torch.linalg.qr(Qprev + pert).Q if not single else None
        for j in range(max(1, max_iter)):
            M = L @ cur
            if single:
                ok, worst, matched = cls._match_qr_factor(Q, M, unit, margin=10.0, floor=0.0, det_thresh=0.03)
            else:
                ok, worst, matched = cls._match_qr_factor(Q, M, unit, margin=10.0, floor=0.3, det_thresh=1e-3)
            if ok:
                return True, worst
            best = min(best, worst)
            # can the next iterate still be judged?  only if this one was fully and well determined, otherwise its
            # arbitrary / ill-conditioned columns feed the next power step and nothing can be said
            cur = torch.linalg.qr(M).Q
            okc, _, matched_c = cls._match_qr_factor(cur, M, unit, margin=1e9, floor=1e9, det_thresh=1e-4)
            if single:
                return False, best
            if matched_c < n:
                return True, -1.0  # undecidable from here on (counted by the caller as a skip)
            cur_b = torch.linalg.qr(L @ cur_b).Q
            c = (cur * cur_b).sum(dim=0).abs().clamp(max=1.0)
            drift = float((1.0 - c * c).clamp(min=0.0).sqrt().max())
            if drift > 0.02:
                return True, -1.0  # the chain amplifies round-off: undecidable
        return False, best


class BlockingOracle(Oracle):
    """C05 construction-time invariants (DESIGN section 4, C05) + gradient blocks cover the same index sets."""

    def on_built(self, run: SingleRun) -> None:
        for gi, refs in enumerate(run.blocks):
            hp = run.hps[gi]
            by_param: dict[int, list[BlockRef]] = {}
            for b in refs:
                by_param.setdefault(b.param_index, []).append(b)
            for pi in run.trace["groups"][gi]["params"]:
                blocks = by_param.get(pi, [])
                p = run.params[pi].detach()
                ctx = {"param": pi, "shape": list(p.shape), "max_dim": hp.max_dim, "merge": hp.merge}
                if not blocks:
                    raise run.violation("tiling_gap_or_overlap", gi, note="parameter has no block", **ctx)
                seen = torch.zeros(max(1, p.numel()), dtype=torch.int32)
                for b in blocks:
                    if b.block.untyped_storage().data_ptr() != p.untyped_storage().data_ptr():
                        raise run.violation("block_not_view", gi, block=b.key, **ctx)
                    if b.block.requires_grad:
                        raise run.violation("block_not_view", gi, block=b.key, note="block requires grad", **ctx)
                    if any(d > hp.max_dim for d in b.block.shape):
                        raise run.violation("block_dim_exceeds_limit", gi, block=b.key, block_shape=list(b.block.shape), **ctx)
                    flat = b.idx.reshape(-1)
                    if flat.numel() and (int(flat.min()) < 0 or int(flat.max()) >= p.numel()):
                        raise run.violation("tiling_gap_or_overlap", gi, block=b.key, note="index outside parameter", **ctx)
                    if flat.numel() > 1 and not bool((flat[1:] > flat[:-1]).all()):
                        raise run.violation("order_not_row_major", gi, block=b.key, **ctx)
                    seen.index_add_(0, flat, torch.ones_like(flat, dtype=torch.int32))
                if p.numel() and not bool((seen[: p.numel()] == 1).all()):
                    raise run.violation(
                        "tiling_gap_or_overlap", gi, uncovered=int((seen[: p.numel()] == 0).sum()), multiply=int((seen[: p.numel()] > 1).sum()), **ctx
                    )
                # merged shape recovered from the block strides
                b0 = blocks[0]
                if p.dim() >= 2 and not p.is_contiguous():
                    run.probes["noncontiguous_param_blocked"] += 1  # (stride analysis below presumes the row-major layout)
                elif b0.block.dim() > 0 and p.numel() > 0:
                    st = list(b0.block.stride())
                    if any(list(b.block.stride()) != st for b in blocks):
                        raise run.violation("merge_not_adjacent_or_over_limit", gi, note="blocks disagree on strides", **ctx)
                    merged = []
                    ok = True
                    for d in range(len(st)):
                        hi = p.numel() if d == 0 else st[d - 1]
                        if st[d] == 0 or hi % st[d] != 0:
                            ok = False
                            break
                        merged.append(hi // st[d])
                    if not ok or st[-1] != 1:
                        raise run.violation("merge_not_adjacent_or_over_limit", gi, note="strides are not those of a contiguous view", strides=st, **ctx)
                    if not self._valid_merge(list(p.shape), merged, hp.max_dim, hp.merge):
                        raise run.violation("merge_not_adjacent_or_over_limit", gi, merged=merged, **ctx)
                    run.probes["merge_checked"] += 1
                    if len(blocks) > 1:
                        run.probes["multi_block_param"] += 1
                run.probes["tiling_checked"] += 1

    @staticmethod
    def _valid_merge(shape: list[int], merged: list[int], max_dim: int, merge: bool) -> bool:
        if not merge:
            return merged == shape
        sq = [s for s in shape if s != 1] or [1]
        if 1 in merged and merged != [1]:
            return False  # merging drops size-1 dimensions (only an all-unit shape merges to a single 1)
        # merged must be a fusion of adjacent entries of sq; every fused run (len >= 2) has product <= max_dim
        i = 0
        for m in merged:
            prod, cnt = 1, 0
            while i < len(sq) and prod < m:
                prod *= sq[i]
                i += 1
                cnt += 1
            if cnt == 0 and m == 1 and sq == [1] and i == 0:
                i = 1
                continue
            if prod != m:
                return False
            if cnt >= 2 and m > max_dim:
                return False
        return i == len(sq)

    def post_step(self, run: SingleRun, ei: int, ev: dict, exc: BaseException | None) -> None:
        if exc is not None:
            return
        for gi, refs in enumerate(run.blocks):
            if not run.group_present(gi, ev):
                continue
            sl = adapter.group_state_lists(run.opt, gi)
            if "masked_blocked_grads" not in sl:
                raise adapter.HarnessError("state_lists['masked_blocked_grads'] not found")
            gblocks = sl["masked_blocked_grads"]
            present = [b for b in refs if ev["g"][b.param_index] is not None]
            if len(gblocks) != len(present):
                raise run.violation("grad_block_index_set_differs", gi, n_grad_blocks=len(gblocks), n_present_blocks=len(present))
            pblocks = sl.get("masked_blocked_params")
            if pblocks is not None and len(pblocks) == len(gblocks):
                # the parameter block each gradient block is paired with in this step is the block with the same index set
                for k, (pb, b) in enumerate(zip(pblocks, present)):
                    same = (
                        pb.untyped_storage().data_ptr() == b.block.untyped_storage().data_ptr()
                        and pb.storage_offset() == b.block.storage_offset()
                        and tuple(pb.shape) == tuple(b.block.shape)
                        and tuple(pb.stride()) == tuple(b.block.stride())
                    )
                    if not same:
                        raise run.violation("grad_block_index_set_differs", gi, block=b.key, param=b.param_index, position=k, note="gradient block paired with another parameter block")
            for gb, b in zip(gblocks, present):
                g = b.param.grad
                if g is None or gb.untyped_storage().data_ptr() != g.untyped_storage().data_ptr():
                    raise run.violation("grad_block_index_set_differs", gi, block=b.key, note="gradient block is not a view of the gradient")
                gidx = refmodel.block_flat_indices(gb, g.detach())
                if gidx.shape != b.idx.shape or not bool((gidx == b.idx).all()):
                    raise run.violation("grad_block_index_set_differs", gi, block=b.key, param=b.param_index)
                run.probes["grad_block_checked"] += 1


class PresplitTwin(Oracle):
    """C05 metamorphic twin: A's observed blocks as separate contiguous parameters (merge off), same events."""

    def __init__(self) -> None:
        self.twin = None
        self.map: list[list[int]] = []  # per group: twin param index per block

    def on_built(self, run: SingleRun) -> None:
        params = []
        groups = []
        self.block_refs: list[BlockRef] = []
        for gi, refs in enumerate(run.blocks):
            idxs = []
            for b in refs:
                idxs.append(len(params))
                params.append({"shape": list(b.block.shape), "dtype": spec.DTYPE_NAMES[b.param.dtype], "init_seed": 0})
                self.block_refs.append(b)
            ov = dict(run.trace["groups"][gi].get("overrides", {}))
            ov["use_merge_dims"] = False
            groups.append({"params": idxs, "overrides": ov})
        t = {**run.trace, "params": params, "groups": groups}
        # Each twin parameter is a separate leaf with the *same strides* as the observed block (a view into a private
        # clone of the parameter), so that both systems run the very same floating-point kernels: the comparison then
        # is exact even where inverse roots / eigenbases are ill-conditioned.
        self.bases = {pi: p.detach().clone() for pi, p in enumerate(run.params)}
        self.tparams = [
            torch.as_strided(
                self.bases[b.param_index], tuple(b.block.shape), tuple(b.block.stride()), b.block.storage_offset() - b.param.storage_offset()
            ).requires_grad_(True)
            for b in self.block_refs
        ]
        self.topt = spec.build_optimizer(t, self.tparams, pt2=None)
        run.log.take()

    def pre_step(self, run: SingleRun, ei: int, ev: dict) -> None:
        gbases = {pi: (None if p.grad is None else p.grad.detach().clone()) for pi, p in enumerate(run.params)}
        for b, tp in zip(self.block_refs, self.tparams):
            gb = gbases[b.param_index]
            tp.grad = (
                None
                if gb is None
                else torch.as_strided(gb, tuple(b.block.shape), tuple(b.block.stride()), b.block.storage_offset() - b.param.storage_offset())
            )
        self.prev = [tp.detach().clone() for tp in self.tparams]

    def on_hparam(self, run: SingleRun, ei: int, ev: dict) -> None:
        self.topt.param_groups[ev["group"]][ev["key"]] = ev["value"]

    def on_poke(self, run: SingleRun, ei: int, ev: dict) -> None:
        with torch.no_grad():
            for b, tp in zip(self.block_refs, self.tparams):
                if b.param_index == ev["param"]:
                    tp.mul_(ev["scale"])

    def post_step(self, run: SingleRun, ei: int, ev: dict, exc: BaseException | None) -> None:
        texc = None
        try:
            self.topt.step()
        except Exception as e:  # noqa: BLE001
            texc = e
        run.log.take()
        if exc is not None or texc is not None:
            if (exc is None) != (texc is None):
                if natural_failure(run, exc or texc):
                    run.probes["ended_by_natural_solver_failure"] += 1
                    return
                raise run.violation("presplit_twin_diverges", 0, note="only one of the two systems raised", a=repr(exc)[:200], b=repr(texc)[:200])
            return
        from .worldrun import exact_tol, rel_param_gap

        for b, tp, prev in zip(self.block_refs, self.tparams, self.prev):
            a = torch.take(b.param.detach().reshape(-1), b.idx)
            e = tp.detach().clone()
            if not (refmodel.is_finite(a) and refmodel.is_finite(e)):
                run.probes["nonfinite_state_skip"] += 1
                continue
            gap = rel_param_gap(a, e, prev)
            run.probes["presplit_compare"] += 1
            if spec.bit_equal(a, e):
                run.probes["presplit_bit_equal"] += 1
            if gap > exact_tol(a.dtype):
                raise run.violation("presplit_twin_diverges", b.gi, block=b.key, param=b.param_index, gap=gap, tol=exact_tol(a.dtype), shape=list(b.block.shape))
            with torch.no_grad():
                tp.copy_(a)


class NormTransferOracle(Oracle):
    """C02 second sentence: from start_preconditioning_step on, every block's step has the grafted direction's norm and
    the Shampoo direction (checked when momentum = 0 and weight decay = 0, where delta_block = -lr * P is observable)."""

    def __init__(self, ref: RefOracle) -> None:
        self.ref = ref
        self.had_refresh: set[tuple[int, int]] = set()  # blocks that took part in a scheduled root computation

    def post_step(self, run: SingleRun, ei: int, ev: dict, exc: BaseException | None) -> None:
        if exc is not None:
            return
        for gi, refs in enumerate(run.blocks):
            hp = run.hps[gi]
            if run.group_present(gi, ev) and hp.is_refresh(run.counters[gi]):
                for b in refs:
                    if ev["g"][b.param_index] is not None:
                        self.had_refresh.add((gi, b.li))
            if hp.grafting is None or hp.momentum != 0.0 or hp.weight_decay != 0.0 or not run.group_present(gi, ev):
                continue
            t = run.counters[gi]
            if t < hp.start:
                continue
            lr = spec.f32(hp.lr)
            if lr == 0.0:
                continue
            for b in refs:
                pre = self.ref.pre.get((gi, b.li))
                if pre is None:
                    continue
                post = refmodel.read_block_state(run.opt.state[b.param][b.key])
                if not all(refmodel.is_finite(x) for x in [pre["W"], pre["G"], *post.inv]):
                    continue
                exp = refmodel.expected_step(hp, t, pre["W"], pre["G"], pre["state"], post.inv, post.corrected)
                if exp.shampoo_direction is None:
                    continue
                W_now = torch.take(b.param.detach().reshape(-1), b.idx).to(refmodel.F64)
                delta = W_now - pre["W"]
                gn = float(torch.linalg.vector_norm(exp.graft_direction))
                sn = float(torch.linalg.vector_norm(exp.shampoo_direction))
                dn = float(torch.linalg.vector_norm(delta))
                rt = refmodel.RTOL[b.param.dtype]
                # delta = W_new - W_pre is itself a rounded difference: its error is ~ u * |W| per element
                round_off = spec.UNIT[b.param.dtype] * float(torch.linalg.vector_norm(pre["W"])) * 4
                fin = torch.finfo(b.param.dtype)
                hi, lo = math.sqrt(fin.max) * 1e-3, math.sqrt(fin.tiny) * 1e3
                in_range = all(lo < x < hi for x in (sn, gn, refmodel._amax(exp.shampoo_direction), refmodel._amax(exp.graft_direction)) if x > 0.0)
                if (
                    sn == 0.0
                    and gn > 0.0
                    and in_range
                    and (gi, b.li) in self.had_refresh
                    and post.inv
                    and all(float(x.abs().max()) == 0.0 for x in post.inv if x.numel())
                    and not run.failure_messages
                ):
                    # the block took part in a scheduled root computation (at start_preconditioning_step or later), no
                    # computation failed, and still no inverse root is stored: the step has norm 0 instead of the graft's
                    raise run.violation(
                        "graft_norm_not_transferred", gi, delta_norm=dn, expected=lr * gn, tol=0.0, note="no inverse root stored after a scheduled computation",
                        block=b.key, param=b.param_index, shape=list(b.block.shape),
                    )
                if not in_range or not (sn > 1e-12 * max(gn, 1e-300)) or exp.amplification > 1e3 or gn == 0.0 or not math.isfinite(gn * lr):
                    # (norms whose squares leave the dtype's range overflow to inf / underflow to 0 in the rescale)
                    run.probes["norm_transfer_skip"] += 1
                    continue
                # the implementation divides by (|P| + 1e-16): for a tiny Shampoo direction the transferred norm falls
                # short of |graft| by the relative amount 1e-16 / |P|
                tol = (8 * rt + 2 * exp.slack + 2 * exp.asym + 2e-16 / sn) * lr * gn * exp.amplification + round_off
                ctx = {"block": b.key, "param": b.param_index, "shape": list(b.block.shape)}
                if abs(dn - lr * gn) > tol:
                    raise run.violation("graft_norm_not_transferred", gi, delta_norm=dn, expected=lr * gn, tol=tol, **ctx)
                if dn > 20 * round_off and dn > 0:
                    cos = float((delta * (-exp.shampoo_direction)).sum()) / (dn * sn)
                    ctol = (8 * rt + 2 * exp.slack + 2 * exp.asym) * exp.amplification + 2 * round_off / dn
                    if cos < 1.0 - max(ctol, 1e-12) and ctol < 0.5:
                        raise run.violation("direction_not_shampoo", gi, cosine=cos, tol=ctol, **ctx)
                run.probes["norm_transfer_checked"] += 1


class TorchOptimTwin(Oracle):
    """C02 first sentence: during warm-up the grafted configuration follows torch.optim's own optimizer (lock-step twin
    on cloned parameters, re-synchronised after every comparison)."""

    def __init__(self, target: str) -> None:
        self.target = target

    def on_built(self, run: SingleRun) -> None:
        self.tparams = [p.detach().clone().requires_grad_(True) for p in run.params]
        groups = []
        for gi, g in enumerate(run.trace["groups"]):
            hp = run.hps[gi]
            d: dict[str, Any] = {"params": [self.tparams[pi] for pi in g["params"]], "lr": hp.lr, "weight_decay": hp.weight_decay}
            gr = hp.grafting
            if self.target == "sgd":
                d.update(momentum=hp.momentum, dampening=0.0, nesterov=bool(hp.nesterov and hp.momentum > 0))
            elif self.target == "adagrad":
                d.update(eps=gr["epsilon"], lr_decay=0.0, initial_accumulator_value=0.0)
            elif self.target == "rmsprop":
                d.update(alpha=gr["beta2"], eps=gr["epsilon"], momentum=hp.momentum, centered=False)
            else:
                d.update(betas=(hp.beta1, gr["beta2"]), eps=gr["epsilon"])
            groups.append(d)
        cls = {
            "sgd": torch.optim.SGD,
            "adagrad": torch.optim.Adagrad,
            "rmsprop": torch.optim.RMSprop,
            "adam": torch.optim.Adam,
            "adamw": torch.optim.AdamW,
        }[self.target]
        kw: dict[str, Any] = {"lr": 0.1}
        if self.target in ("adagrad", "adam", "adamw", "rmsprop", "sgd"):
            kw["foreach"] = False
        self.topt = cls(groups, **kw)

    def on_hparam(self, run: SingleRun, ei: int, ev: dict) -> None:
        self.topt.param_groups[ev["group"]][ev["key"]] = ev["value"]

    def on_poke(self, run: SingleRun, ei: int, ev: dict) -> None:
        with torch.no_grad():
            self.tparams[ev["param"]].mul_(ev["scale"])

    def pre_step(self, run: SingleRun, ei: int, ev: dict) -> None:
        for p, tp in zip(run.params, self.tparams):
            tp.grad = None if p.grad is None else p.grad.detach().clone()
        self.prev = [tp.detach().clone() for tp in self.tparams]

    def post_step(self, run: SingleRun, ei: int, ev: dict, exc: BaseException | None) -> None:
        if exc is not None:
            return
        self.topt.step()
        from .worldrun import rel_param_gap

        for gi, g in enumerate(run.trace["groups"]):
            hp = run.hps[gi]
            t = run.counters[gi]
            if t >= hp.start:
                continue
            for pi in g["params"]:
                a = run.params[pi].detach()
                e = self.tparams[pi].detach()
                if not (refmodel.is_finite(a) and refmodel.is_finite(e)):
                    run.probes["nonfinite_state_skip"] += 1
                    continue
                slack = 0.0
                if self.target in ("adam", "adamw") and ev["g"][pi] is not None:
                    b2 = hp.grafting["beta2"]
                    bc1 = 1.0 - hp.beta1**t
                    bc2 = 1.0 - b2**t if b2 < 1.0 else 1.0
                    slack = refmodel._bc_slack(bc1, t) + 0.5 * refmodel._bc_slack(bc2, t)
                tol = {torch.float64: 1e-9, torch.float32: 2e-4, torch.bfloat16: 1e-1}[a.dtype] + 2 * slack
                gap = rel_param_gap(a, e, self.prev[pi])
                run.probes["torch_optim_compare"] += 1
                if gap > tol:
                    raise run.violation(
                        f"diverges_from_torch_optim:{self.target}", gi, param=pi, gap=gap, tol=tol, present=ev["g"][pi] is not None
                    )
        with torch.no_grad():
            for p, tp in zip(run.params, self.tparams):
                tp.copy_(p.detach())


class GroupIndependenceTwin(Oracle):
    """C01 last sentence: one optimizer with k parameter groups behaves exactly like k independent single-group optimizers
    built with each group's effective hyper-parameters (built through the same param-group mechanism: the optimizer-level
    arguments plus that group's overrides), each with its own step counter."""

    def on_built(self, run: SingleRun) -> None:
        self.twins = []
        for gi, g in enumerate(run.trace["groups"]):
            sub = {
                **run.trace,
                "params": [run.trace["params"][pi] for pi in g["params"]],
                "groups": [{"params": list(range(len(g["params"]))), "overrides": g.get("overrides", {})}],
            }
            tparams = [run.params[pi].detach().clone().requires_grad_(True) for pi in g["params"]]
            topt = spec.build_optimizer(sub, tparams, pt2=None)
            self.twins.append((g["params"], tparams, topt))
        run.log.take()

    def on_hparam(self, run: SingleRun, ei: int, ev: dict) -> None:
        self.twins[ev["group"]][2].param_groups[0][ev["key"]] = ev["value"]

    def on_poke(self, run: SingleRun, ei: int, ev: dict) -> None:
        with torch.no_grad():
            for idxs, tparams, topt in self.twins:
                for pi, tp in zip(idxs, tparams):
                    if pi == ev["param"]:
                        tp.mul_(ev["scale"])

    def pre_step(self, run: SingleRun, ei: int, ev: dict) -> None:
        self.prev = []
        for idxs, tparams, topt in self.twins:
            for pi, tp in zip(idxs, tparams):
                g = run.params[pi].grad
                tp.grad = None if g is None else g.detach().clone()
            self.prev.append([tp.detach().clone() for tp in tparams])

    def post_step(self, run: SingleRun, ei: int, ev: dict, exc: BaseException | None) -> None:
        from .worldrun import exact_tol, rel_param_gap

        if exc is not None:
            return
        for gi, (idxs, tparams, topt) in enumerate(self.twins):
            try:
                topt.step()
            except Exception as e:  # noqa: BLE001
                if natural_failure(run, e):
                    run.probes["ended_by_natural_solver_failure"] += 1
                    return
                raise run.violation("group_not_independent", gi, note="single-group twin raised", exc=repr(e)[:200])
            run.log.take()
            for k, (pi, tp) in enumerate(zip(idxs, tparams)):
                a, e_ = run.params[pi].detach(), tp.detach()
                if not (refmodel.is_finite(a) and refmodel.is_finite(e_)):
                    run.probes["nonfinite_state_skip"] += 1
                    continue
                gap = rel_param_gap(a, e_, self.prev[gi][k])
                run.probes["group_twin_compare"] += 1
                if spec.bit_equal(a, e_):
                    run.probes["group_twin_bit_equal"] += 1
                if gap > exact_tol(a.dtype):
                    raise run.violation("group_not_independent", gi, param=pi, gap=gap, tol=exact_tol(a.dtype))
            p0 = tparams[0]
            if int(topt.state[p0]["step"].item()) != run.step_tensor(gi):
                raise run.violation("group_not_independent", gi, note="step counters differ", twin=int(topt.state[p0]["step"].item()), actual=run.step_tensor(gi))
            with torch.no_grad():
                for pi, tp in zip(idxs, tparams):
                    tp.copy_(run.params[pi].detach())

"""The one place where private attributes of the code under test are read (DESIGN section 7).

A rename in the repository produces HarnessError (exit 2) to be fixed here; it never becomes a false violation.
"""

from __future__ import annotations

from typing import Any


class HarnessError(RuntimeError):
    pass


def _get(obj: Any, name: str) -> Any:
    try:
        return getattr(obj, name)
    except AttributeError as e:  # pragma: no cover
        raise HarnessError(f"adapter: {type(obj).__name__}.{name} not found ({e})") from e


def group_state_lists(opt, gi: int) -> dict:
    return _get(opt, "_per_group_state_lists")[gi]


def distributor(opt, gi: int):
    sl = group_state_lists(opt, gi)
    if "distributor" not in sl:
        raise HarnessError("adapter: state_lists['distributor'] not found")
    return sl["distributor"]


def local_blocks(opt, gi: int) -> list[tuple[Any, Any]]:
    d = distributor(opt, gi)
    blocks = _get(d, "local_blocked_params")
    infos = _get(d, "local_block_info_list")
    if len(blocks) != len(infos):
        raise HarnessError("adapter: block list and block info list differ in length")
    return list(zip(blocks, infos))


def global_blocks(d) -> tuple:
    return _get(d, "_global_blocked_params")


def distributor_selector(d) -> tuple[bool, ...]:
    return tuple(_get(d, "_distributor_selector"))


def num_blocks_per_param(d) -> tuple[int, ...]:
    return tuple(_get(d, "_global_num_blocks_per_param"))


def comm_group(d):
    for name in ("_dist_group", "_comms_dist_group"):
        if hasattr(d, name):
            return getattr(d, name)
    raise HarnessError("adapter: communication group attribute not found")


def comm_group_size(d) -> int:
    for name in ("_group_size", "_dist_group_size"):
        if hasattr(d, name):
            return int(getattr(d, name))
    raise HarnessError("adapter: group size attribute not found")


def dist_buffers(d) -> dict:
    return {
        "global_buffer": _get(d, "_global_dist_buffer"),
        "local_buffer": _get(d, "_local_dist_buffer"),
        "global_block_buffers": _get(d, "_global_dist_blocked_buffers"),
        "local_block_buffers": _get(d, "_local_dist_blocked_buffers"),
    }


def shampoo_list(opt, gi: int):
    sl = group_state_lists(opt, gi)
    if "shampoo_preconditioner_list" not in sl:
        raise HarnessError("adapter: shampoo_preconditioner_list not found")
    return sl["shampoo_preconditioner_list"]

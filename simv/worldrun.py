"""Execute a multi-rank trace in the simulated world and evaluate the cross-rank oracles (DESIGN 3.2-3.4, C06-C08, C14)."""

from __future__ import annotations

import hashlib
import logging
import math
from collections import Counter
from typing import Any

import torch

from . import adapter, refmodel, spec, world
from .engine import Violation

COMM = {"DEFAULT": torch.float32, "FP32": torch.float32, "FP16": torch.float16, "BF16": torch.bfloat16}


def comm_enum(name: str):
    from distributed_shampoo.shampoo_types import CommunicationDType

    return getattr(CommunicationDType, name)


def ref_merge(shape: list[int], max_dim: int, merge: bool) -> list[int]:
    if not merge:
        return list(shape)
    sq = [s for s in shape if s != 1] or [1]
    out = [sq[0]]
    for s in sq[1:]:
        if out[-1] * s <= max_dim:
            out[-1] *= s
        else:
            out.append(s)
    return out


def ref_block_numels(shape: list[int], max_dim: int, merge: bool) -> list[int]:
    """Generator aid: number of elements of every block in row-major block order (independent of the repo code)."""
    dims = ref_merge(shape, max_dim, merge)
    blocks = [1]
    for d in dims:
        parts = [max_dim] * (d // max_dim) + ([d % max_dim] if d % max_dim else [])
        blocks = [b * p for b in blocks for p in parts]
    return blocks


def predict_owners(numels: list[int], itemsize: int, group_size: int) -> list[int]:
    """Generator aid: largest-first / least-loaded assignment (ties: lowest rank), to bias presence patterns."""
    import heapq

    sizes = [(n * itemsize + 63) // 64 * 64 for n in numels]
    heap = [(0, r) for r in range(group_size)]
    owners = [-1] * len(sizes)
    for i in sorted(range(len(sizes)), key=lambda j: -sizes[j]):
        load, r = heapq.heappop(heap)
        owners[i] = r
        heapq.heappush(heap, (load + sizes[i], r))
    return owners


class RankOut:
    """What one simulated rank reports back (plain data only)."""

    def __init__(self) -> None:
        self.snaps: dict[int, list[torch.Tensor]] = {}
        self.steps: dict[int, list[int]] = {}
        self.groups_info: list[dict] = []
        self.exc_event: int | None = None
        self.log_records: list[tuple[int, str]] = []
        self.local_params: list[torch.Tensor] = []
        self.extra: dict = {}


def _dist_config(trace: dict, rank: int, sim: world.Sim, params: list[torch.Tensor]):
    from distributed_shampoo.shampoo_types import DDPShampooConfig

    w = trace["world"]
    if w["kind"] == "ddp":
        return DDPShampooConfig(
            communication_dtype=comm_enum(w["comm_dtype"]),
            num_trainers_per_group=w["num_trainers_per_group"],
            communicate_params=w["communicate_params"],
        )
    raise adapter.HarnessError(f"world kind {w['kind']} not handled here")


def collect_group_info(opt, trace: dict, params: list[torch.Tensor], counted=None) -> list[dict]:
    """Construction-time observables of every group's distributor on this rank (C14, ownership-aware classification)."""
    infos = []
    for gi, g in enumerate(trace["groups"]):
        d = adapter.distributor(opt, gi)
        sel = adapter.distributor_selector(d)
        nb = adapter.num_blocks_per_param(d)
        gblocks = adapter.global_blocks(d)
        info: dict[str, Any] = {
            "counted_params": [True] * len(g["params"]) if counted is None else [bool(counted[pi]) for pi in g["params"]],
            "selector": list(sel),
            "num_blocks_per_param": list(nb),
            "block_numels": [int(b.numel()) for b in gblocks],
            "block_shapes": [list(b.shape) for b in gblocks],
            "group_size": adapter.comm_group_size(d),
        }
        try:
            import torch.distributed as dist

            pg = adapter.comm_group(d)
            info["group_rank"] = dist.get_rank(group=pg)
            info["group_ranks"] = list(dist.get_process_group_ranks(pg))
        except Exception as e:  # noqa: BLE001
            raise adapter.HarnessError(f"cannot read comm group: {e!r}") from e
        # owners as this rank computed them (the block infos of local blocks carry group_source_rank; the global
        # assignment is recovered from the buffer views below)
        bufs = adapter.dist_buffers(d)
        gb = bufs["global_buffer"]
        base = gb.data_ptr()
        seg = gb.numel() // info["group_size"] if info["group_size"] else 0
        views = []
        for bv in bufs["global_block_buffers"]:
            off = bv.data_ptr() - base
            views.append(
                {"offset": int(off), "nbytes": int(bv.numel() * bv.element_size()), "dtype": str(bv.dtype), "shape": list(bv.shape)}
            )
        info["buffer_total"] = int(gb.numel() * gb.element_size())
        info["segment"] = int(seg)
        info["views"] = views
        info["owners"] = [(v["offset"] // seg if seg else 0) for v in views]
        info["local_buffer_offset"] = int(bufs["local_buffer"].data_ptr() - base)
        info["local_buffer_nbytes"] = int(bufs["local_buffer"].numel() * bufs["local_buffer"].element_size())
        # which blocks hold optimizer state with non-empty local data on this rank
        state_blocks = []
        blocks = adapter.local_blocks(opt, gi)
        for block, binfo in blocks:
            st = opt.state.get(binfo.param, {}).get(binfo.composable_block_ids[1])
            has = False
            if st is not None:
                for _, t in spec.walk_state(st):
                    lt = spec._local(t)
                    if lt.numel() > 0:
                        has = True
            state_blocks.append(has)
        info["local_state_present"] = state_blocks
        # every state entry of every param of the group: block keys present in optimizer.state on this rank
        keys = []
        for pi in g["params"]:
            p = params[pi]
            keys.append(sorted(str(k) for k in opt.state.get(p, {}).keys() if k != "step"))
        info["state_keys"] = keys
        info["state_local_numel"] = []
        for pi in g["params"]:
            p = params[pi]
            per = {}
            for k, v in opt.state.get(p, {}).items():
                if k == "step":
                    continue
                per[k] = sum(int(spec._local(t).numel()) for _, t in spec.walk_state(v))
            info["state_local_numel"].append(per)
        infos.append(info)
    return infos


def make_rank_main(trace: dict, outs: list[RankOut], build=None):
    events = trace["events"]

    def rank_main(rank: int, sim: world.Sim) -> None:
        out = outs[rank]
        ctx = sim.me()
        lg = logging.getLogger("distributed_shampoo")
        params = [spec.make_param(p).requires_grad_(True) for p in trace["params"]]
        out.local_params = params
        if build is not None:
            opt = build(trace, rank, sim, params, out)
        else:
            opt = spec.build_optimizer(trace, params, distributed_config=_dist_config(trace, rank, sim, params))
        out.groups_info = collect_group_info(opt, trace, params)
        sim.record("built")
        sim.yield_()
        for ei, ev in enumerate(events):
            if ev["op"] == "step":
                for p, ps, g in zip(params, trace["params"], ev["g"]):
                    p.grad = None if g is None else spec.make_grad(tuple(ps["shape"]), p.dtype, g[0], g[1], g[2])
                try:
                    opt.step()
                except world.SimAbort:
                    raise
                except Exception:
                    out.exc_event = ei
                    raise
                out.snaps[ei] = [p.detach().clone() for p in params]
                out.steps[ei] = [
                    int(opt.state[params[g["params"][0]]]["step"].item()) for g in trace["groups"]
                ]
            elif ev["op"] == "set_hparam":
                opt.param_groups[ev["group"]][ev["key"]] = ev["value"]
            elif ev["op"] == "poke":
                with torch.no_grad():
                    params[ev["param"]].mul_(ev["scale"])
            ctx.progress = ei + 1
            sim.record("event_done", ei)
            sim.yield_()

    return rank_main


# ---------------------------------------------------------------------------------------------------------------------
# oracles over the finished world


def pg_creation_sequences(sim: world.Sim) -> dict[int, list[tuple]]:
    seqs: dict[int, list[tuple]] = {r: [] for r in range(sim.n)}
    for e in sim.log:
        if e[2] == "new_group":
            seqs[e[1]].append((e[3], e[4]))
    return seqs


def check_history(sim: world.Sim, prop: str, ctx_base: dict) -> Violation | None:
    """(i) identical sequence of process-group creations on all ranks; (ii) per group, members' collective sequences
    agree in op and byte sizes (DESIGN 3.4)."""
    seqs = pg_creation_sequences(sim)
    ref = [x[0] for x in seqs[0]]
    # a world that was stopped early (a rank raised / was left waiting) leaves ranks at different points of the same
    # sequence: there the sequences only have to be prefix-compatible
    aborted = sim.outcome != "ok"
    for r in range(1, sim.n):
        mine = [x[0] for x in seqs[r]]
        k = min(len(mine), len(ref))
        if (mine[:k] != ref[:k]) if aborted else (mine != ref):
            # first divergence + call site
            i = next((k for k in range(max(len(mine), len(ref))) if k >= len(mine) or k >= len(ref) or mine[k] != ref[k]), 0)
            site = (seqs[r][i][1] if i < len(seqs[r]) else None) or (seqs[0][i][1] if i < len(seqs[0]) else None)
            return Violation(
                prop,
                "pg_creation_mismatch",
                -1,
                {
                    **ctx_base,
                    "rank_a": 0,
                    "rank_b": r,
                    "index": i,
                    "a": [list(x) for x in ref[max(0, i - 1) : i + 2]],
                    "b": [list(x) for x in mine[max(0, i - 1) : i + 2]],
                    "call_site": site,
                },
            )
    per_group: dict[tuple, dict[int, list]] = {}
    for e in sim.log:
        if e[2] == "coll":
            _, r, _, ranks, k, seq, op, sizes, site = e
            per_group.setdefault((ranks, k), {}).setdefault(r, []).append((seq, op, sizes))
    for (ranks, k), by_rank in per_group.items():
        ref_seq = None
        for r in ranks:
            s = by_rank.get(r, [])
            if ref_seq is None:
                ref_seq = s
            elif (s[: min(len(s), len(ref_seq))] != ref_seq[: min(len(s), len(ref_seq))]) if aborted else (s != ref_seq):
                return Violation(
                    prop, "collective_mismatch", -1, {**ctx_base, "group": list(ranks), "rank": r, "len_a": len(ref_seq), "len_b": len(s)}
                )
    return None


def starved_ranks(trace: dict, outs: list[RankOut], ev: dict) -> list[tuple[int, int]]:
    """(global rank, group) pairs for which every owned block lacks a gradient while the group has one, from the *real*
    ownership. Any member of a communication group knows the whole assignment (owner per global block), so a rank that
    was aborted before reporting is still classified through its peers."""
    res = set()
    for out in outs:
        for gi, g in enumerate(trace["groups"]):
            if gi >= len(out.groups_info):
                continue
            info = out.groups_info[gi]
            present_param = [ev["g"][pi] is not None for pi in g["params"]]
            if not any(present_param):
                continue
            present_param = [pp for pp, c in zip(present_param, info.get("counted_params", [True] * len(present_param))) if c]
            block_present: list[bool] = []
            for pp, nb in zip(present_param, info["num_blocks_per_param"]):
                block_present.extend([pp] * nb)
            if not any(block_present):
                continue  # nothing of this group has a gradient on this shard: every member skips consistently
            owners = info["owners"]
            for m, grank in enumerate(info["group_ranks"]):
                owned = [bp for bp, ow in zip(block_present, owners) if ow == m]
                if owned and not any(owned):
                    res.add((grank, gi))
    return sorted(res)


def exact_tol(dtype: torch.dtype) -> float:
    return {torch.float64: 1e-9, torch.float32: 1e-4, torch.bfloat16: 3e-2, torch.float16: 1e-2}[dtype]


def rel_param_gap(a: torch.Tensor, e: torch.Tensor, prev: torch.Tensor) -> float:
    a64, e64, p64 = a.to(torch.float64), e.to(torch.float64), prev.to(torch.float64)
    if a64.numel() == 0:
        return 0.0
    if not (bool(torch.isfinite(a64).all()) and bool(torch.isfinite(e64).all())):
        same = (a64 == e64) | (torch.isnan(a64) & torch.isnan(e64))
        return 0.0 if bool(same.all()) else float("inf")
    scale = max(float(e64.abs().max()), float((e64 - p64).abs().max()), 1e-300)
    return float((a64 - e64).abs().max()) / scale


def digest_params(ps: list[torch.Tensor]) -> str:
    h = hashlib.sha256()
    for p in ps:
        h.update(spec.tensor_bytes(p))
    return h.hexdigest()[:16]


class SerialTwin:
    """The single-process optimizer driven by the same events, re-synchronised to the distributed parameters before
    every step (DESIGN 3.5)."""

    def __init__(self, trace: dict, param_specs: list[dict] | None = None, init: list[torch.Tensor] | None = None) -> None:
        t = dict(trace)
        if param_specs is not None:
            t = {**trace, "params": param_specs}
        self.trace = t
        self.params = [spec.make_param(p).requires_grad_(True) for p in t["params"]]
        if init is not None:
            with torch.no_grad():
                for p, q in zip(self.params, init):
                    p.copy_(q)
        self.opt = spec.build_optimizer(t, self.params, distributed_config=None, pt2=None)

    def resync(self, values: list[torch.Tensor]) -> None:
        with torch.no_grad():
            for p, q in zip(self.params, values):
                p.copy_(q)

    def step(self, grads: list[torch.Tensor | None]) -> BaseException | None:
        for p, g in zip(self.params, grads):
            p.grad = g
        try:
            self.opt.step()
        except Exception as e:  # noqa: BLE001
            return e
        return None


def compare_with_serial(
    trace: dict, outs: list[RankOut], prop: str, ctx_base: dict, probes: Counter, last_event: int
) -> Violation | None:
    """DDP (and every layout in which each rank holds the full parameters): every rank equals the serial optimizer."""
    w = trace["world"]
    comm_dt = COMM[w["comm_dtype"]]
    twin = SerialTwin(trace)
    prev = [p.detach().clone() for p in twin.params]
    for ei, ev in enumerate(trace["events"]):
        if ei > last_event:
            break
        if ev["op"] == "set_hparam":
            twin.opt.param_groups[ev["group"]][ev["key"]] = ev["value"]
            continue
        if ev["op"] == "poke":
            # the same in-place rescaling every rank applied to its copy (same dtype, same rounding)
            prev[ev["param"]] = prev[ev["param"]] * ev["scale"]
            continue
        if ei not in outs[0].snaps:
            break
        twin.resync(prev)
        grads = [
            None if g is None else spec.make_grad(tuple(ps["shape"]), p.dtype, g[0], g[1], g[2])
            for p, ps, g in zip(twin.params, trace["params"], ev["g"])
        ]
        exc = twin.step(grads)
        if exc is not None:
            probes["serial_twin_raised"] += 1
            return None
        dist = outs[0].snaps[ei]
        for pi, (wd, ws, wp) in enumerate(zip(dist, twin.params, prev)):
            ws = ws.detach()
            pdt = ws.dtype
            present = ev["g"][pi] is not None
            lossy = present and spec.UNIT[comm_dt] > spec.UNIT[pdt] * 1.0001
            if comm_dt == torch.float16 and pdt == torch.bfloat16:
                lossy = present  # fp16 has the finer mantissa but the smaller range: handled as a rounding regime
            if not bool(torch.isfinite(ws).all()) or not bool(torch.isfinite(wd).all()) or (ws.numel() and float(ws.abs().max()) > 1e12):
                # non-finite or blown-up trajectory: no verdict on the remaining steps (engine.SingleRun.SANE_LIMIT)
                probes["nonfinite_param_skip"] += 1
                return None
            if not lossy:
                gap = rel_param_gap(wd, ws, wp)
                probes["exact_compare"] += 1
                if spec.bit_equal(wd, ws):
                    probes["exact_bit_equal"] += 1
                if gap > exact_tol(pdt):
                    return Violation(
                        prop, "diverges_from_serial", ei, {**ctx_base, "param": pi, "gap": gap, "tol": exact_tol(pdt), "present": present}
                    )
            else:
                probes["lossy_compare"] += 1
                u_c = spec.UNIT[comm_dt]
                u_p = spec.UNIT[pdt]
                ws64, wd64, wp64 = ws.to(torch.float64), wd.to(torch.float64), wp.to(torch.float64)
                if w["communicate_params"]:
                    if comm_dt == torch.float16 and float(ws64.abs().max()) > 6.0e4:
                        probes["fp16_range_skip"] += 1
                        continue
                    bound = 2.0 * u_c * ws64.abs() * (1 + 2.0**-6) + 2.0 * u_p * ws64.abs() + (2.0**-24 if comm_dt == torch.float16 else 0.0)
                else:
                    delta = (ws64 - wp64).abs()
                    if comm_dt == torch.float16 and float(delta.max()) > 3.0e4:
                        probes["fp16_range_skip"] += 1
                        continue
                    bound = (
                        2.0 * u_c * delta * (1 + 2.0**-6)
                        + 4.0 * u_p * torch.maximum(ws64.abs(), wp64.abs())
                        + 2.0 * u_p * delta
                        + (2.0**-24 if comm_dt == torch.float16 else 0.0)
                        + 1e-300
                    )
                excess = ((wd64 - ws64).abs() - bound).max()
                if float(excess) > 0.0:
                    worst = float(((wd64 - ws64).abs() / (bound + 1e-300)).max())
                    return Violation(
                        prop,
                        "rounding_regime_exceeded",
                        ei,
                        {**ctx_base, "param": pi, "worst_ratio": worst, "communicate_params": w["communicate_params"]},
                    )
        prev = [t.detach().clone() for t in dist]
    return None


def check_replicas(outs: list[RankOut], prop: str, ctx_base: dict, replica_sets: list[list[int]], probes: Counter) -> Violation | None:
    for rs in replica_sets:
        ref = outs[rs[0]]
        for r in rs[1:]:
            o = outs[r]
            for ei in sorted(set(ref.snaps) & set(o.snaps)):
                for pi, (a, b) in enumerate(zip(ref.snaps[ei], o.snaps[ei])):
                    probes["replica_compare"] += 1
                    if not spec.bit_equal(a, b):
                        return Violation(prop, "replicas_differ", ei, {**ctx_base, "rank_a": rs[0], "rank_b": r, "param": pi})
                if ref.steps.get(ei) != o.steps.get(ei):
                    return Violation(
                        prop, "step_counter_diverged", ei, {**ctx_base, "rank_a": rs[0], "rank_b": r, "a": ref.steps.get(ei), "b": o.steps.get(ei)}
                    )
    return None


def compare_with_twin(
    trace: dict,
    out: RankOut,
    layout: list[tuple[int, int, int, tuple[int, ...]]],
    local_slices,  # (pi) -> (s, e) range of the full parameter's flat elements held locally, or None for dim-0 chunks
    local_of_full,  # (pi, full_tensor) -> this rank's local tensor of that parameter
    prop: str,
    ctx_base: dict,
    probes: Counter,
    last_event: int,
    lossy_possible: bool,
) -> Violation | None:
    """Serial twin over `layout`: every entry (pi, a, b, shape) is one independent twin parameter holding elements a..b of
    the rank's flattened local tensor of parameter pi. The twin is re-synchronised before every step (DESIGN 3.5)."""
    w = trace["world"]
    comm_dt = COMM[w.get("comm_dtype", "DEFAULT")]
    specs = [{"shape": list(sh), "dtype": trace["params"][pi]["dtype"], "init_seed": 0} for pi, a, b, sh in layout]
    groups = []
    for g in trace["groups"]:
        idx = [ti for ti, (pi, a, b, sh) in enumerate(layout) if pi in g["params"]]
        if not idx:
            raise adapter.HarnessError("a group has no local element on a rank (generator precondition violated)")
        groups.append({"params": idx, "overrides": g.get("overrides", {})})
    ttrace = {**trace, "params": specs, "groups": groups}

    def to_twin(local_list: list[torch.Tensor]) -> list[torch.Tensor]:
        return [local_list[pi].reshape(-1)[a:b].reshape(sh).clone() for pi, a, b, sh in layout]

    twin = SerialTwin(ttrace, init=to_twin(out.extra["initial"]))
    prev = to_twin(out.extra["initial"])
    for ei, ev in enumerate(trace["events"]):
        if ei > last_event:
            break
        if ev["op"] == "set_hparam":
            twin.opt.param_groups[ev["group"]][ev["key"]] = ev["value"]
            continue
        if ev["op"] == "poke":
            prev = [(v * ev["scale"] if layout[ti][0] == ev["param"] else v) for ti, v in enumerate(prev)]
            continue
        if ei not in out.snaps:
            break
        twin.resync(prev)
        local_grads: dict[int, torch.Tensor] = {}
        grads = []
        for pi, a, b, sh in layout:
            g = ev["g"][pi]
            if g is None:
                grads.append(None)
                continue
            if pi not in local_grads:
                ps = trace["params"][pi]
                full = spec.make_grad(tuple(ps["shape"]), DTYPES_[ps["dtype"]], g[0], g[1], g[2])
                local_grads[pi] = local_of_full(pi, full)
            grads.append(local_grads[pi].reshape(-1)[a:b].reshape(sh).clone())
        exc = twin.step(grads)
        if exc is not None:
            probes["serial_twin_raised"] += 1
            return None
        dist_vals = to_twin(out.snaps[ei])
        for ti, (wd, wsp, wp) in enumerate(zip(dist_vals, twin.params, prev)):
            ws = wsp.detach()
            pi = layout[ti][0]
            pdt = ws.dtype
            present = ev["g"][pi] is not None
            lossy = lossy_possible and present and spec.UNIT[comm_dt] > spec.UNIT[pdt] * 1.0001
            if lossy_possible and comm_dt == torch.float16 and pdt == torch.bfloat16:
                lossy = present
            if not bool(torch.isfinite(ws).all()) or not bool(torch.isfinite(wd).all()) or (ws.numel() and float(ws.abs().max()) > 1e12):
                # non-finite or blown-up trajectory: no verdict on the remaining steps (engine.SingleRun.SANE_LIMIT)
                probes["nonfinite_param_skip"] += 1
                return None
            if not lossy:
                gap = rel_param_gap(wd, ws, wp)
                probes["exact_compare"] += 1
                if spec.bit_equal(wd, ws):
                    probes["exact_bit_equal"] += 1
                if gap > exact_tol(pdt):
                    return Violation(
                        prop,
                        "diverges_from_serial",
                        ei,
                        {**ctx_base, "param": pi, "twin_param": ti, "twin_shape": list(layout[ti][3]), "gap": gap, "tol": exact_tol(pdt), "present": present},
                    )
            else:
                probes["lossy_compare"] += 1
                v = _lossy_check(wd, ws, wp, comm_dt, pdt, bool(w.get("communicate_params")), probes)
                if v is not None:
                    return Violation(prop, "rounding_regime_exceeded", ei, {**ctx_base, "param": pi, "worst_ratio": v, "communicate_params": w.get("communicate_params")})
        prev = dist_vals
    # elements outside the layout (FSDP padding never exists; nothing to check)
    return None


DTYPES_ = spec.DTYPES


def _lossy_check(wd, ws, wp, comm_dt, pdt, communicate_params: bool, probes: Counter) -> float | None:
    u_c, u_p = spec.UNIT[comm_dt], spec.UNIT[pdt]
    ws64, wd64, wp64 = ws.to(torch.float64), wd.to(torch.float64), wp.to(torch.float64)
    if communicate_params:
        if comm_dt == torch.float16 and float(ws64.abs().max()) > 6.0e4:
            probes["fp16_range_skip"] += 1
            return None
        bound = 2.0 * u_c * ws64.abs() * (1 + 2.0**-6) + 2.0 * u_p * ws64.abs() + (2.0**-24 if comm_dt == torch.float16 else 0.0)
    else:
        delta = (ws64 - wp64).abs()
        if comm_dt == torch.float16 and float(delta.max()) > 3.0e4:
            probes["fp16_range_skip"] += 1
            return None
        bound = (
            2.0 * u_c * delta * (1 + 2.0**-6)
            + 4.0 * u_p * torch.maximum(ws64.abs(), wp64.abs())
            + 2.0 * u_p * delta
            + (2.0**-24 if comm_dt == torch.float16 else 0.0)
            + 1e-300
        )
    if float(((wd64 - ws64).abs() - bound).max()) > 0.0:
        return float(((wd64 - ws64).abs() / (bound + 1e-300)).max())
    return None


def world_digest(sim, outs: list[RankOut]) -> str:
    h = hashlib.sha256()
    h.update(repr(sim.choices).encode())
    h.update(repr([(e[1], e[2]) + tuple(repr(x) for x in e[3:]) for e in sim.log]).encode())
    h.update(sim.outcome.encode())
    for o in outs:
        for ei in sorted(o.snaps):
            for t in o.snaps[ei]:
                h.update(spec.tensor_bytes(t))
        h.update(repr(sorted(o.steps.items())).encode())
    return h.hexdigest()[:20]

"""Monitor (not a fault seam) on the numerical dependency the amortized computations rest on: torch.linalg.eigh.

The LAPACK build underneath torch can return a non-finite decomposition for a finite symmetric input without raising
(observed on this image: MKL 2024.2, float32, the 16x16 matrix with every entry equal to 14). The library answers as its
contract says (PreconditionerValueError, no parameter modified); a fault-free run that ends this way is explained by the
dependency, not by the code under test, and carries no verdict. The monitor only counts such returns."""

from __future__ import annotations

import torch

COUNT = {"eigh_nonfinite": 0}
_orig = None


def install() -> None:
    global _orig
    if _orig is not None:
        return
    _orig = torch.linalg.eigh

    def eigh(A, *args, **kwargs):
        out = _orig(A, *args, **kwargs)
        if torch.compiler.is_compiling():
            return out
        try:
            if A.numel() and bool(torch.isfinite(A).all()) and not (bool(torch.isfinite(out[0]).all()) and bool(torch.isfinite(out[1]).all())):
                COUNT["eigh_nonfinite"] += 1
        except Exception:  # noqa: BLE001
            pass
        return out

    torch.linalg.eigh = eigh


def count() -> int:
    return COUNT["eigh_nonfinite"]

"""Delta debugging over traces (DESIGN 2.5): keep (property, tag) fixed, shrink everything else."""

from __future__ import annotations

import copy
import time
from typing import Callable, Iterator

from . import spec


class Budget:
    def __init__(self, max_exec: int = 150, max_s: float = 60.0) -> None:
        self.max_exec = max_exec
        self.deadline = time.monotonic() + max_s  # wall clock only bounds the search; it never affects a run
        self.execs = 0

    def ok(self) -> bool:
        return self.execs < self.max_exec and time.monotonic() < self.deadline


def _valid(trace: dict) -> bool:
    n = len(trace["params"])
    if n == 0 or not trace["groups"] or not trace["events"]:
        return False
    seen = sorted(i for g in trace["groups"] for i in g["params"])
    if seen != list(range(n)) or any(not g["params"] for g in trace["groups"]):
        return False
    for ev in trace["events"]:
        if ev["op"] == "step" and len(ev["g"]) != n:
            return False
        if ev["op"] == "set_hparam" and ev["group"] >= len(trace["groups"]):
            return False
        if ev["op"] == "poke" and ev["param"] >= n:
            return False
    return True


def drop_param(trace: dict, pi: int) -> dict | None:
    t = copy.deepcopy(trace)
    del t["params"][pi]
    groups = []
    old_to_new_group = {}
    for gi, g in enumerate(t["groups"]):
        ps = [p - (1 if p > pi else 0) for p in g["params"] if p != pi]
        if ps:
            old_to_new_group[gi] = len(groups)
            groups.append({**g, "params": ps})
    t["groups"] = groups
    evs = []
    for ev in t["events"]:
        if ev["op"] == "step":
            ev = {**ev, "g": [x for j, x in enumerate(ev["g"]) if j != pi]}
            for k in ("faults",):
                if k in ev:
                    ev[k] = [f for f in ev[k] if f.get("param") != pi]
                    for f in ev[k]:
                        if f.get("param", -1) > pi:
                            f["param"] -= 1
        elif ev["op"] == "set_hparam":
            if ev["group"] not in old_to_new_group:
                continue
            ev = {**ev, "group": old_to_new_group[ev["group"]]}
        elif ev["op"] == "poke":
            if ev["param"] == pi:
                continue
            ev = {**ev, "param": ev["param"] - (1 if ev["param"] > pi else 0)}
        evs.append(ev)
    t["events"] = evs
    return t if _valid(t) else None


def candidates(trace: dict, violation_event: int | None) -> Iterator[dict]:
    """Successively simpler traces, most aggressive first. The caller re-invokes after every accepted candidate."""
    evs = trace["events"]
    # 1. truncate after the violating event
    if violation_event is not None and violation_event + 1 < len(evs):
        t = copy.deepcopy(trace)
        t["events"] = evs[: violation_event + 1]
        yield t
    # 2. ddmin over events
    n = len(evs)
    chunk = max(1, n // 2)
    while chunk >= 1:
        for start in range(0, n, chunk):
            keep = evs[:start] + evs[start + chunk :]
            if keep and len(keep) < n:
                t = copy.deepcopy(trace)
                t["events"] = copy.deepcopy(keep)
                yield t
        if chunk == 1:
            break
        chunk //= 2
    # 3. drop parameters
    for pi in reversed(range(len(trace["params"]))):
        t = drop_param(trace, pi)
        if t is not None:
            yield t
    # 3b. merge groups into one (drop overrides)
    if len(trace["groups"]) > 1:
        t = copy.deepcopy(trace)
        t["groups"] = [{"params": sorted(i for g in trace["groups"] for i in g["params"]), "overrides": {}}]
        t["events"] = [({**ev, "group": 0} if ev["op"] == "set_hparam" else ev) for ev in t["events"]]
        yield t
    for gi, g in enumerate(trace["groups"]):
        for k in list(g.get("overrides", {})):
            t = copy.deepcopy(trace)
            del t["groups"][gi]["overrides"][k]
            yield t
    # 4. shrink shapes
    for pi, p in enumerate(trace["params"]):
        shape = p["shape"]
        for d, s in enumerate(shape):
            for new in ([s // 2] if s > 2 else []) + ([s - 1] if s > 1 else []):
                if new >= 1:
                    t = copy.deepcopy(trace)
                    t["params"][pi]["shape"][d] = new
                    yield t
        for d, s in enumerate(shape):
            if s == 1 or len(shape) > 1:
                t = copy.deepcopy(trace)
                del t["params"][pi]["shape"][d]
                yield t
    # 5. configuration fields back to defaults
    for k, dv in spec.DEFAULT_CONFIG.items():
        if k in trace["config"] and trace["config"][k] != dv:
            t = copy.deepcopy(trace)
            t["config"][k] = copy.deepcopy(dv)
            yield t
    if isinstance(trace["config"].get("preconditioner"), dict):
        for k, dv in spec.DEFAULT_CONFIG["preconditioner"].items():
            if k != "kind" and trace["config"]["preconditioner"].get(k) != dv:
                t = copy.deepcopy(trace)
                t["config"]["preconditioner"][k] = copy.deepcopy(dv)
                if k == "solver" and trace["config"]["preconditioner"]["kind"] == "soap":
                    t["config"]["preconditioner"][k] = {"type": "eigh", "retry": True}
                yield t
    # 6. simpler gradients
    for ei, ev in enumerate(trace["events"]):
        if ev["op"] != "step":
            continue
        for pi, g in enumerate(ev["g"]):
            if g is not None and (g[1] != "gauss" or g[2] != 1.0):
                t = copy.deepcopy(trace)
                t["events"][ei]["g"][pi] = [g[0], "gauss", 1.0]
                yield t
    # 7. world simplifications (multi-rank traces)
    w = trace.get("world")
    if w:
        if trace.get("schedule"):
            t = copy.deepcopy(trace)
            t["schedule"] = []
            yield t
        for ei, ev in enumerate(trace["events"]):
            if ev.get("faults"):
                t = copy.deepcopy(trace)
                t["events"][ei]["faults"] = []
                yield t


def minimize(
    trace: dict,
    violation_event: int | None,
    still_fails: Callable[[dict], int | None | bool],
    budget: Budget | None = None,
) -> tuple[dict, int]:
    """still_fails(candidate) -> event index of the same violation class (or True) if it persists, else None/False."""
    budget = budget or Budget()
    cur = trace
    cur_ev = violation_event
    progress = True
    while progress and budget.ok():
        progress = False
        for cand in candidates(cur, cur_ev):
            if not budget.ok():
                break
            if not _valid(cand):
                continue
            budget.execs += 1
            try:
                r = still_fails(cand)
            except Exception:  # noqa: BLE001  (a candidate that cannot even be built is simply rejected)
                r = None
            if r is not None and r is not False:
                cur = cand
                cur_ev = r if isinstance(r, int) and not isinstance(r, bool) else None
                progress = True
                break
    return cur, budget.execs
